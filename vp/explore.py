"""E-STR: exhaustive string enumeration over an explicit alphabet, sharded by prefix."""
import itertools


def prefix_shards(alphabet, n, plen=2):
    """Shard descriptors covering all strings of length <= n: one shard for all strings shorter than plen
    (incl. the empty string) and one per prefix of length plen."""
    plen = min(plen, n)
    shards = [('short', plen)]
    if n >= plen and plen > 0:
        for pre in itertools.product(range(len(alphabet)), repeat=plen):
            shards.append(('prefix', pre))
    return shards


def shard_strings(alphabet, n, shard):
    """Yield (text, symbol_count) for one shard, in length-then-lexicographic order."""
    kind, v = shard
    if kind == 'short':
        for l in range(0, v):
            for t in itertools.product(alphabet, repeat=l):
                yield ''.join(t), l
    else:
        pre = ''.join(alphabet[i] for i in v)
        k = len(v)
        for l in range(k, n + 1):
            for t in itertools.product(alphabet, repeat=l - k):
                yield pre + ''.join(t), l


def count_strings(alphabet, n):
    return sum(len(alphabet) ** l for l in range(n + 1))


def chunks(it, size):
    buf = []
    for x in it:
        buf.append(x)
        if len(buf) >= size:
            yield buf
            buf = []
    if buf:
        yield buf
