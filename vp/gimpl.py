"""G_impl — the implementation-side grammar, read mechanically from the production comments LALRPOP leaves in parser/src/python.rs.
Used for coverage measurement (hook H3): which productions of the compiled parser the explored corpus actually reduces."""
import re

PYTHON_RS = '/repo/parser/src/python.rs'


def productions(path=PYTHON_RS):
    """-> {index: 'LHS = RHS'} for every production of the LR tables"""
    src = open(path).read()
    out = {}
    for m in re.finditer(r'\n\s+(\d+) => \{\n\s+// (.*?) => ActionFn\((\d+)\);', src):
        out[int(m.group(1))] = m.group(2)
    for m in re.finditer(r'fn __reduce(\d+)<[^{]*\{\s*(?:// (.*?) => ActionFn\((\d+)\);)', src):
        if m.group(2):
            out.setdefault(int(m.group(1)), m.group(2))
    return out


def lhs(prod):
    return prod.split(' = ', 1)[0]


def _split_rhs(r):
    out, cur, d, q, i = [], '', 0, False, 0
    while i < len(r):
        c = r[i]
        if c == '"':
            q = not q
        if not q:
            if c in '<(':
                d += 1
            if c in '>)':
                d -= 1
            if c == ',' and d == 0 and r[i + 1:i + 2] == ' ':
                out.append(cur.strip())
                cur = ''
                i += 2
                continue
        cur += c
        i += 1
    if cur.strip():
        out.append(cur.strip())
    return out


def live_productions(prods=None):
    """indices of the productions whose left-hand side is reachable from the start symbol through right-hand sides as compiled (LALRPOP lists the
    productions of inlined macro non-terminals such as ","? too, but nothing refers to them any more, so they can never be reduced)"""
    prods = prods or productions()
    left = {i: lhs(p) for i, p in prods.items()}
    right = {i: (_split_rhs(p.split(' = ', 1)[1]) if ' = ' in p else []) for i, p in prods.items()}
    nts = set(left.values())
    live = {n for n in nts if n.startswith('__') or n == 'Top'}
    changed = True
    while changed:
        changed = False
        for i in prods:
            if left[i] in live:
                for sym in right[i]:
                    if sym in nts and sym not in live:
                        live.add(sym)
                        changed = True
    return sorted(i for i in prods if left[i] in live)


# ---------------------------------------------------------------- production-driven sentences (E-PROD over G_impl)
TERMINAL_TEXT = {'int': '1', 'float': '1.5', 'complex': '2j', 'string': "'s'", 'Indent': 'IND', 'Dedent': 'DED', '"\\n"': 'NL',
                 'StartModule': None, 'StartInteractive': None, 'StartExpression': None}


def _grammar():
    prods = productions()
    live = live_productions(prods)
    left = {i: lhs(prods[i]) for i in live}
    right = {i: (_split_rhs(prods[i].split(' = ', 1)[1]) if ' = ' in prods[i] else []) for i in live}
    by_lhs = {}
    for i in live:
        by_lhs.setdefault(left[i], []).append(i)
    return prods, live, left, right, by_lhs


_LITERALS = {'string', 'int', 'float', 'complex', '"None"', '"True"', '"False"', '"..."'}


def _cost(y):
    # shortest first; among equally short expansions prefer names to literals (a name is valid as a target, a literal is not)
    return len(y) * 16 + sum(1 for t in y if t in _LITERALS)


def _min_yields(live, left, right, by_lhs):
    """shortest terminal string of every non-terminal and of every production (fixpoint on length, ties by production index)"""
    INF = 10 ** 9
    best = {n: None for n in by_lhs}

    def prod_yield(i):
        out = []
        for s in right[i]:
            if s in by_lhs:
                if best[s] is None:
                    return None
                out.extend(best[s])
            else:
                out.append(s)
        return out

    changed = True
    while changed:
        changed = False
        for i in live:
            y = prod_yield(i)
            if y is not None and (best[left[i]] is None or _cost(y) < _cost(best[left[i]])):
                best[left[i]] = y
                changed = True
    return best, prod_yield


def sentences(pairs=True):
    """-> list of (tag, token tuple). One sentence per reachable production (module start symbol, shortest context, shortest expansion of every
    other symbol) and, with pairs, one per (production, position, child production): every parent/child pair of productions in a minimal context.
    Tokens are gref.render tokens (NL / IND / DED, names made distinct)."""
    prods, live, left, right, by_lhs = _grammar()
    best, prod_yield = _min_yields(live, left, right, by_lhs)
    # shortest context of every non-terminal from 'Top = StartModule, Program'
    ctx = {}
    start = [i for i in live if left[i] == 'Top' and right[i][:1] == ['StartModule']]
    ctx['Top'] = ([], [])
    changed = True
    while changed:
        changed = False
        for i in live:
            if left[i] not in ctx or (left[i] == 'Top' and i not in start):
                continue
            pre, post = ctx[left[i]]
            syms = right[i]
            for k, s in enumerate(syms):
                if s not in by_lhs:
                    continue
                a, b = [], []
                ok = True
                for t in syms[:k]:
                    y = best[t] if t in by_lhs else [t]
                    if y is None:
                        ok = False
                        break
                    a.extend(y)
                for t in syms[k + 1:]:
                    y = best[t] if t in by_lhs else [t]
                    if y is None:
                        ok = False
                        break
                    b.extend(y)
                if not ok:
                    continue
                cand = (pre + a, b + post)
                if s not in ctx or _cost(cand[0] + cand[1]) < _cost(ctx[s][0] + ctx[s][1]):
                    ctx[s] = cand
                    changed = True
    out = []

    def emit(tag, toks):
        n = 0
        line = []
        for t in toks:
            if t == 'name':
                line.append('n%d' % n)
                n += 1
            elif t in TERMINAL_TEXT:
                if TERMINAL_TEXT[t] is not None:
                    line.append(TERMINAL_TEXT[t])
            elif t.startswith('"') and t.endswith('"'):
                line.append(t[1:-1])
            else:
                raise ValueError('unknown terminal %r' % t)
        out.append((tag, tuple(line)))

    for i in live:
        if left[i] not in ctx or left[i].startswith('__'):
            continue
        pre, post = ctx[left[i]]
        y = prod_yield(i)
        if y is not None:
            emit('production %d' % i, pre + y + post)
        if not pairs:
            continue
        syms = right[i]
        for k, s in enumerate(syms):
            if s not in by_lhs:
                continue
            a, b = [], []
            for t in syms[:k]:
                a.extend(best[t] if t in by_lhs else [t])
            for t in syms[k + 1:]:
                b.extend(best[t] if t in by_lhs else [t])
            for j in by_lhs[s]:
                yj = prod_yield(j)
                if yj is not None:
                    emit('production %d / %d at %d' % (i, j, k), pre + a + yj + b + post)
    return out
