"""G_impl — the implementation-side grammar, read mechanically from the production comments LALRPOP leaves in parser/src/python.rs.
Used for coverage measurement (hook H3): which productions of the compiled parser the explored corpus actually reduces."""
import re

PYTHON_RS = '/repo/parser/src/python.rs'


def productions(path=PYTHON_RS):
    """-> {index: 'LHS = RHS'} for every production of the LR tables"""
    src = open(path).read()
    out = {}
    for m in re.finditer(r'\n\s+(\d+) => \{\n\s+// (.*?) => ActionFn\((\d+)\);', src):
        out[int(m.group(1))] = m.group(2)
    for m in re.finditer(r'fn __reduce(\d+)<[^{]*\{\s*(?:// (.*?) => ActionFn\((\d+)\);)', src):
        if m.group(2):
            out.setdefault(int(m.group(1)), m.group(2))
    return out


def lhs(prod):
    return prod.split(' = ', 1)[0]
