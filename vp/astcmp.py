"""Canonical generic trees for both sides.

rs(tree)  : JSON generic tree (from the worker's Debug->JSON converter)  -> canonical tree
py(node)  : CPython 3.11 ast node                                       -> canonical tree

canonical tree:  (Name, {field: value, '@': (start, end) | None})  |  [..]  |  ('s', str)  |  ('id', Name)
                 |  ('int', 'decimal')  |  ('float', 8 bytes)  |  ('complex', 8 bytes, 8 bytes)  |  ('bytes', b'..')
                 |  True / False / None

The only non-mechanical mappings are the ones the property statements allow (DESIGN.md section 4):
per-parameter defaults (the *Python* side is converted), lone surrogates -> U+FFFD, ConversionFlag <-> int,
ImportFrom.level Some(n) <-> n, struct-name prefixes, type_ -> type.
"""
import ast, struct, sys

sys.setrecursionlimit(20000)

PREFIXES = ('Stmt', 'Expr', 'Pattern', 'ExceptHandler', 'Mod', 'TypeParam')
REN = {'type_': 'type'}
NONE_IS_CONSTANT = {('ExprConstant', 'value'), ('PatternMatchSingleton', 'value')}
NONE_IS_CONV = {('ExprFormattedValue', 'conversion')}


def strip_prefix(name):
    for p in PREFIXES:
        if name.startswith(p) and len(name) > len(p):
            return name[len(p):]
    return name


def fbits(x):
    return struct.pack('>d', x)


def _float(n):
    # n: {"n": "1.5"} or {"t": "inf"/"NaN"}
    if 'n' in n:
        return ('float', fbits(float(n['n'])))
    return ('float', fbits(float(n['t'].lower().replace('nan', 'nan'))))


def rs_const(v):
    t = v.get('t')
    if t == 'None':
        return ('CNone',)
    if t == 'Ellipsis':
        return ('id', 'Ellipsis')
    a = v.get('a')
    if t == 'Int':
        return ('int', a[0]['n'])
    if t == 'Str':
        return ('s', a[0])
    if t == 'Bytes':
        return ('bytes', bytes(int(x['n']) for x in a[0]))
    if t == 'Float':
        return _float(a[0])
    if t == 'Bool':
        return a[0]['t'] == 'true'
    if t == 'Complex':
        f = v['f']
        return ('complex', _float(f['real'])[1], _float(f['imag'])[1])
    if t == 'Tuple':
        return ('ctuple', [rs_const(x) for x in a[0]])
    raise ValueError('unknown constant %r' % (v,))


def rs_range(v):
    if isinstance(v, dict) and 'r' in v:
        return (v['r'][0], v['r'][1])
    return None


def rs(n, with_ranges=False):
    if isinstance(n, list):
        return [rs(x, with_ranges) for x in n]
    if isinstance(n, str):
        return ('s', n)
    if 'f' in n:
        name = n['t']
        f = n['f']
        d = {}
        for k, v in f.items():
            if k == 'range':
                if with_ranges:
                    d['@'] = rs_range(v)
                continue
            if (name, k) in NONE_IS_CONSTANT:
                d[k] = rs_const(v)
                continue
            if (name, k) in NONE_IS_CONV:
                d[k] = ('conv', v['t'])
                continue
            if name == 'ExprConstant' and k == 'kind':
                d[k] = None if v.get('t') == 'None' else ('s', v['a'][0])
                continue
            d[REN.get(k, k)] = rs(v, with_ranges)
        return (strip_prefix(name), d)
    if 'a' in n:
        name, a = n['t'], n['a']
        if name == 'Some':
            return rs(a[0], with_ranges)
        if name == 'Identifier':
            return ('s', a[0])
        if name == 'Int' and len(a) == 1 and 'n' in a[0]:
            return ('int', a[0]['n'])
        # enum wrapper around its payload struct: Name(ExprName { .. })
        if len(a) == 1 and isinstance(a[0], dict) and 'f' in a[0]:
            return rs(a[0], with_ranges)
        return ('U', name, [rs(x, with_ranges) for x in a])
    if 't' in n:
        t = n['t']
        if t == 'None':
            return None
        if t == 'true':
            return True
        if t == 'false':
            return False
        return ('id', t)
    if 'n' in n:
        return ('num', n['n'])
    if 'u' in n:
        return None if not n['u'] else ('tuple', [rs(x, with_ranges) for x in n['u']])
    if 'c' in n:
        return ('char', n['c'])
    if 'r' in n:
        return ('range', n['r'][0], n['r'][1])
    raise ValueError('unknown generic node %r' % (n,))


# ---------------------------------------------------------------- CPython side
CONV = {-1: ('conv', 'None'), 115: ('conv', 'Str'), 114: ('conv', 'Repr'), 97: ('conv', 'Ascii')}
PYNAME = {'comprehension': 'Comprehension', 'arg': 'Arg', 'keyword': 'Keyword', 'alias': 'Alias', 'withitem': 'WithItem',
          'match_case': 'MatchCase', 'arguments': 'Arguments'}
POSITIONED = (ast.stmt, ast.expr, ast.pattern, ast.arg, ast.keyword, ast.alias, ast.excepthandler)


def py_const(v):
    if v is None:
        return ('CNone',)
    if v is True or v is False:
        return v
    if v is Ellipsis:
        return ('id', 'Ellipsis')
    if isinstance(v, int):
        return ('int', str(v))
    if isinstance(v, float):
        return ('float', fbits(v))
    if isinstance(v, complex):
        return ('complex', fbits(v.real), fbits(v.imag))
    if isinstance(v, str):
        return ('s', ''.join('�' if 0xd800 <= ord(c) <= 0xdfff else c for c in v))
    if isinstance(v, bytes):
        return ('bytes', v)
    raise ValueError('constant %r' % (v,))


class PyDump:
    """pos: optional function (lineno, col_offset) -> absolute byte offset in the original text"""

    def __init__(self, pos=None):
        self.pos = pos

    def rng(self, n):
        if self.pos is None:
            return None
        if isinstance(n, POSITIONED) and getattr(n, 'lineno', None) is not None and getattr(n, 'end_lineno', None) is not None:
            return (self.pos(n.lineno, n.col_offset), self.pos(n.end_lineno, n.end_col_offset))
        return None

    def arguments(self, a):
        pos = list(a.posonlyargs) + list(a.args)
        nd = len(a.defaults)
        defaults = [None] * (len(pos) - nd) + list(a.defaults)

        def awd(arg, default):
            d = {'def': self.node(arg), 'default': self.node(default) if default is not None else None}
            if self.pos is not None:
                d['@'] = None
            return ('ArgWithDefault', d)

        np_ = len(a.posonlyargs)
        d = {
            'posonlyargs': [awd(x, y) for x, y in zip(pos[:np_], defaults[:np_])],
            'args': [awd(x, y) for x, y in zip(pos[np_:], defaults[np_:])],
            'vararg': self.node(a.vararg) if a.vararg else None,
            'kwonlyargs': [awd(x, y) for x, y in zip(a.kwonlyargs, a.kw_defaults)],
            'kwarg': self.node(a.kwarg) if a.kwarg else None,
        }
        if self.pos is not None:
            d['@'] = None
        return ('Arguments', d)

    def node(self, n):
        if isinstance(n, list):
            return [self.node(x) for x in n]
        if n is None:
            return None
        if not isinstance(n, ast.AST):
            raise ValueError('unexpected %r' % (n,))
        name = n.__class__.__name__
        if isinstance(n, (ast.expr_context, ast.operator, ast.unaryop, ast.cmpop, ast.boolop)):
            return ('id', name)
        if isinstance(n, ast.arguments):
            return self.arguments(n)
        d = {}
        if isinstance(n, ast.Constant):
            d['value'] = py_const(n.value)
            d['kind'] = ('s', n.kind) if n.kind else None
        else:
            for f in n._fields:
                v = getattr(n, f, None)
                if name == 'FormattedValue' and f == 'conversion':
                    d[f] = CONV[v]
                elif name == 'ImportFrom' and f == 'level':
                    d[f] = ('int', str(v))
                elif name == 'AnnAssign' and f == 'simple':
                    d[f] = bool(v)
                elif name == 'comprehension' and f == 'is_async':
                    d[f] = bool(v)
                elif name == 'MatchSingleton' and f == 'value':
                    d[f] = py_const(v)
                elif isinstance(v, str):
                    d[f] = ('s', v)
                elif isinstance(v, list) and v and isinstance(v[0], str):
                    d[f] = [('s', x) for x in v]
                else:
                    d[f] = self.node(v)
        if self.pos is not None:
            d['@'] = self.rng(n)
        return (PYNAME.get(name, name), d)


def mask_spec_kinds(t, in_spec=False):
    """Oracle calibration: drop the `kind` ('u' marker) of constants inside a nested format spec. CPython 3.11's f-string compiler marks
    some of them and not others (u'x' f'{a:>{w}}' vs u'x' f'''{a:\n}'''), an artefact no reader of the tree relies on."""
    if isinstance(t, list):
        return [mask_spec_kinds(x, in_spec) for x in t]
    if isinstance(t, tuple) and len(t) == 2 and isinstance(t[1], dict):
        name, d = t
        out = {}
        for k, v in d.items():
            if in_spec and name == 'Constant' and k == 'kind':
                out[k] = None
            else:
                out[k] = mask_spec_kinds(v, in_spec or (name == 'FormattedValue' and k == 'format_spec'))
        return (name, out)
    return t


def firstdiff(a, b, path=''):
    """-> None or (path, a_here, b_here)"""
    if type(a) != type(b):
        return (path, brief(a), brief(b))
    if isinstance(a, tuple) and len(a) == 2 and isinstance(a[1], dict):
        if a[0] != b[0]:
            return (path, a[0], b[0])
        for k in sorted(set(a[1]) | set(b[1])):
            if k not in a[1] or k not in b[1]:
                return (path + '.' + k, 'present' if k in a[1] else 'missing', 'present' if k in b[1] else 'missing')
            r = firstdiff(a[1][k], b[1][k], path + '.' + a[0] + '.' + k)
            if r:
                return r
        return None
    if isinstance(a, (list, tuple)):
        if len(a) != len(b):
            return (path, 'len %d' % len(a), 'len %d' % len(b))
        for i, (x, y) in enumerate(zip(a, b)):
            r = firstdiff(x, y, path + ('[%d]' % i if isinstance(a, list) else ''))
            if r:
                return r
        return None
    return None if a == b else (path, brief(a), brief(b))


def brief(x):
    if isinstance(x, tuple) and len(x) == 2 and isinstance(x[1], dict):
        return x[0]
    if isinstance(x, list):
        return 'list[%d]' % len(x)
    s = repr(x)
    return s if len(s) < 60 else s[:57] + '...'


def path_suffix(path, n=2):
    """last n '.Node.field' steps of a difference path, indices removed (the signature of a root cause)"""
    import re
    parts = re.findall(r'\.([A-Za-z_]+\.[A-Za-z_@]+)', path)
    return '>'.join(parts[-n:]) if parts else path


def erase(t, keys=('@',)):
    """drop the given keys (ranges / ctx) everywhere"""
    if isinstance(t, list):
        return [erase(x, keys) for x in t]
    if isinstance(t, tuple) and len(t) == 2 and isinstance(t[1], dict):
        return (t[0], {k: erase(v, keys) for k, v in t[1].items() if k not in keys})
    return t


def count_nodes(t):
    if isinstance(t, list):
        return sum(count_nodes(x) for x in t)
    if isinstance(t, tuple) and len(t) == 2 and isinstance(t[1], dict):
        return 1 + sum(count_nodes(v) for v in t[1].values())
    return 0


def walk(t, path=()):
    """yield (path, node) for every (Name, dict) node"""
    if isinstance(t, list):
        for i, x in enumerate(t):
            yield from walk(x, path + (i,))
    elif isinstance(t, tuple) and len(t) == 2 and isinstance(t[1], dict):
        yield path, t
        for k, v in t[1].items():
            if k != '@':
                yield from walk(v, path + (t[0] + '.' + k,))
