"""Shared corpus plumbing for the properties that explore G_ref sentences (C01 C02 C04 C08 C09 C10 C11 C12 C13)."""
import ast, warnings, zlib, json
from . import gref, common as C, astcmp

warnings.simplefilter('ignore')

DEPTH = {'quick': 2, 'thorough': 3}


GIMPL_SHARDS = 8
SUITE_SHARDS = 8
_SUITES = None
# shapes of a statement list: one statement, two, a lone compound statement, a compound statement followed / preceded by a simple one
SUITE_SHAPES = [['a', 'NL'], ['a', 'NL', 'b', 'NL'], ['if', 'c', ':', 'NL', 'IND', 'd', 'NL', 'DED'], ['if', 'c', ':', 'NL', 'IND', 'd', 'NL', 'DED', 'e', 'NL'],
                ['e', 'NL', 'if', 'c', ':', 'NL', 'IND', 'd', 'NL', 'DED'], ['pass', ';', 'a', 'NL']]


def suite_sentences():
    """E-PROD: every compound statement with every combination of suite shapes in its suites (body, else, handlers, finally): what a tree
    transformer does with the second statement of a block, or with a block that merely starts like an elif, only shows in these shapes"""
    global _SUITES
    if _SUITES is None:
        import itertools
        heads = {
            'if': [['if', 'a', ':'], ['else', ':']], 'if-elif': [['if', 'a', ':'], ['elif', 'b', ':'], ['else', ':']], 'while': [['while', 'a', ':'], ['else', ':']],
            'for': [['for', 't', 'in', 'a', ':'], ['else', ':']], 'with': [['with', 'a', 'as', 't', ':']], 'def': [['def', 'f', '(', ')', ':']],
            'class': [['class', 'C', ':']], 'try': [['try', ':'], ['except', 'a', ':'], ['else', ':'], ['finally', ':']],
            'try-star': [['try', ':'], ['except', '*', 'a', ':'], ['else', ':'], ['finally', ':']], 'try-finally': [['try', ':'], ['finally', ':']],
            'async-for': [['async', 'for', 't', 'in', 'a', ':'], ['else', ':']], 'match': [['match', 'a', ':', 'NL', 'IND', 'case', '1', ':'], ['case', '_', ':']],
        }
        out = []
        for name, clauses in heads.items():
            shapes = SUITE_SHAPES if len(clauses) <= 3 else SUITE_SHAPES[:4]
            for combo in itertools.product(shapes, repeat=len(clauses)):
                toks = []
                for cl, body in zip(clauses, combo):
                    toks += cl + ['NL', 'IND'] + body + ['DED']
                if name == 'match':
                    toks += ['DED']
                out.append(tuple(toks))
        _SUITES = out
    return _SUITES
_GIMPL = None


def gimpl_sentences():
    """distinct token tuples of the production-driven sentences of the implementation grammar (vp/gimpl.py): every reachable production of the
    compiled LR tables and every (production, child production) pair, each in its shortest context"""
    global _GIMPL
    if _GIMPL is None:
        from . import gimpl
        seen = set()
        out = []
        for _, toks in gimpl.sentences():
            if toks not in seen:
                seen.add(toks)
                out.append(toks)
        _GIMPL = out
    return _GIMPL


def shards_for(d, start='file', groups=None):
    sh = [p for p in gref.spine_shards(start) if gref.shard_min_cost(p) <= d]
    if start == 'file':
        sh += [('gimpl', k) for k in range(GIMPL_SHARDS)]
        sh += [('suites', k) for k in range(SUITE_SHARDS)]
    return sh


def sentences(path, d, start='file'):
    """yield (tokens, cost) of one shard; the ('gimpl', k) pseudo-shards carry the production-driven sentences (reported as cost 1)"""
    if isinstance(path, tuple) and len(path) == 2 and path[0] == 'gimpl':
        for toks in gimpl_sentences()[path[1]::GIMPL_SHARDS]:
            yield toks, 1
        return
    if isinstance(path, tuple) and len(path) == 2 and path[0] == 'suites':
        for toks in suite_sentences()[path[1]::SUITE_SHARDS]:
            yield toks, 2
        return
    e = gref.Enum()
    yield from e.gen(gref.N(start), d, path)


def group_shards(shards, ngroups):
    """deterministic grouping of many small shards into at most ngroups tasks (round-robin keeps sizes even)"""
    groups = [[] for _ in range(min(ngroups, len(shards)) or 1)]
    for i, s in enumerate(shards):
        groups[i % len(groups)].append(s)
    return groups


def cpython_parse(text, mode='exec'):
    """-> (ast, None) or (None, SyntaxError-like message)"""
    try:
        return ast.parse(text.encode('utf-8'), mode=mode), None
    except SyntaxError as e:
        return None, '%s: %s' % (type(e).__name__, e.msg)
    except (ValueError, RecursionError, MemoryError) as e:
        return None, '%s: %s' % (type(e).__name__, e)


def err_kind(obs):
    """short kind of a Rust parse error observation"""
    e = obs.get('err')
    if not isinstance(e, dict):
        return str(e)
    t = e.get('t')
    if t == 'Lexical' and e.get('a'):
        inner = e['a'][0]
        it = inner.get('t')
        if it == 'OtherError':
            return 'Lexical(OtherError)'
        if it == 'FStringError' and inner.get('a'):
            return 'Lexical(FStringError(%s))' % inner['a'][0].get('t')
        return 'Lexical(%s)' % it
    if t == 'UnrecognizedToken' and e.get('a'):
        return 'UnrecognizedToken(%s)' % e['a'][0].get('t')
    return str(t)


def is_bad(obs):
    return isinstance(obs, dict) and ('panic' in obs or 'crash' in obs or 'hang' in obs or 'dbgerr' in obs)


def bad_kind(obs):
    o = C.norm_obs(obs)
    if 'panic' in o:
        return 'panic "%s"' % o['panic'][:70]
    if 'crash' in o:
        return 'crash'
    if 'hang' in o:
        return 'hang'
    return 'debug-channel-error'


def text_hash(text):
    return zlib.crc32(text.encode('utf-8', 'surrogatepass')) & 0xffffffff


FSTR_LITERALS = ["'s'", "f'{a}'", "f'{a}{b}'", "f'{a:{w}}'", "f'{a!r:>{w}}x'", "f'''{a}\n{b}'''", "f'''\n{a}\n'''", "f'''{a:\n}'''", "'''\n'''", "f'{a=}'", "rf'{a}\\n'", "u'é'",
                 "f'é{é}'", "f'{a:{w}.{p}}'", "f'\\101\\0{a}\\x41\\N{EM DASH}{b}'", 'f"{d[\'k\']} {b}"', "f'{a:\\x3e{w}}{b}'", 'f"{d[\'é€\']}{b}"', "'''\n\ufeffx''' f'{(a),(b)}'", "'\\\n'", "f'''\n{a} and {b}'''", "f'{a:xé}{b}'"]


def fstring_product(n=3):
    """every sequence of 1..n string literals from FSTR_LITERALS, joined on one line and spread over lines inside parentheses
    (implicit concatenation; multi-line f-strings; nested format specs) - the shapes where piece ranges and line tracking interact"""
    import itertools
    for k in range(1, n + 1):
        for combo in itertools.product(FSTR_LITERALS, repeat=k):
            yield 'x = ' + ' '.join(combo) + '\n'
            if k > 1:
                yield 'x = (' + '\n    '.join(combo) + ')\n'
                yield 'f(' + ',\n  k='.join(combo) + ')\r\n'
            if any('\n' in c for c in combo):
                yield ('x = (' + '\n    '.join(combo) + ')\n').replace('\n', '\r\n')
                yield ('x = (' + '\n    '.join(combo) + ')\n').replace('\n', '\r')
