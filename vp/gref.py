"""G_ref — the reference-side grammar of Python 3.11 (+ PEP 695) forms, and E-DERIV, the deviation-bounded
derivation explorer: every derivation tree that takes a non-default alternative (index > 0) at most d times,
streamed, sharded by the alternatives chosen along the leftmost spine.

A sentence is a tuple of tokens; NL / IND / DED are layout markers that `render` turns into text under a layout.
"""
import functools, re, keyword

N = lambda n: ('N', n)
binops = ['+', '-', '*', '/', '//', '%', '@', '**', '<<', '>>', '&', '|', '^']
cmps = ['==', '!=', '<', '<=', '>', '>=', 'in', 'not in', 'is', 'is not']
augops = ['+=', '-=', '*=', '@=', '/=', '%=', '&=', '|=', '^=', '<<=', '>>=', '**=', '//=']
E = N('expr')
COMPOUND = [
    ['if', N('nexpr'), ':', N('suite')],
    ['if', E, ':', N('suite'), 'else', ':', N('suite')],
    ['if', E, ':', N('suite'), 'elif', E, ':', N('suite')],
    ['if', E, ':', N('suite'), 'elif', E, ':', N('suite'), 'else', ':', N('suite')],
    ['if', E, ':', N('suite'), 'elif', E, ':', N('suite'), 'elif', E, ':', N('suite')],
    ['while', N('nexpr'), ':', N('suite')], ['while', E, ':', N('suite'), 'else', ':', N('suite')],
    ['for', N('target'), 'in', N('rhsiter'), ':', N('suite')], ['for', 't', 'in', E, ':', N('suite'), 'else', ':', N('suite')],
    ['async', 'for', 't', 'in', E, ':', N('suite')],
    ['try', ':', N('suite'), N('handlers')], ['try', ':', N('suite'), N('handlers'), 'else', ':', N('suite')],
    ['try', ':', N('suite'), N('handlers'), 'finally', ':', N('suite')],
    ['try', ':', N('suite'), N('handlers'), 'else', ':', N('suite'), 'finally', ':', N('suite')],
    ['try', ':', N('suite'), 'finally', ':', N('suite')],
    ['try', ':', N('suite'), 'except', '*', E, ':', N('suite')], ['try', ':', N('suite'), 'except', '*', E, 'as', 'e', ':', N('suite')],
    ['with', N('withitems'), ':', N('suite')], ['async', 'with', N('withitems'), ':', N('suite')],
    [N('decos'), 'def', 'f', '(', N('params'), ')', ':', N('suite')],
    [N('decos'), 'def', 'f', '(', N('params'), ')', '->', E, ':', N('suite')],
    ['async', 'def', 'f', '(', ')', ':', N('suite')],
    ['def', 'f', '[', N('tparams'), ']', '(', ')', ':', N('suite')],
    [N('decos'), 'class', 'C', ':', N('suite')], ['class', 'C', '(', ')', ':', N('suite')], ['class', 'C', '(', N('args'), ')', ':', N('suite')],
    ['class', 'C', '[', N('tparams'), ']', ':', N('suite')], ['class', 'C', '[', N('tparams'), ']', '(', 'B', ')', ':', N('suite')],
    ['match', N('subject'), ':', 'NL', 'IND', N('cases'), 'DED'],
]
G = {
    'file': [[N('stmts')]],
    'stmts': [[N('stmt')], [N('stmt'), N('stmts')]],
    'stmt': [[N('simple'), 'NL'], [N('simple'), ';', N('simple'), 'NL'], [N('simple'), ';', 'NL']] + COMPOUND,
    'suite': [['pass', 'NL'], [N('simple'), 'NL'], ['NL', 'IND', N('stmts'), 'DED'], [N('simple'), ';', N('simple'), 'NL']],
    'target': [['t'], ['t', '.', 'm'], ['t', '[', E, ']'], ['t', ',', 'u'], ['(', 't', ',', 'u', ')'], ['[', 't', ',', 'u', ']'], ['*', 't', ',', 'u'],
               ['(', 't', ')'], ['t', ','], ['(', ')'], ['[', ']']],
    'simple': [[E],
               [N('target'), '=', N('rhs')], [N('target'), '=', N('target'), '=', N('rhs')],
               ] + [['t', op, N('rhs')] for op in augops] + [
        ['t', '.', 'm', '+=', E], ['t', '[', E, ']', '+=', E],
        ['t', ':', E], ['t', ':', E, '=', N('rhs')], ['t', '.', 'm', ':', E], ['t', '[', E, ']', ':', E, '=', E], ['(', 't', ')', ':', E, '=', E],
        ['return'], ['return', N('rhs')], ['raise'], ['raise', E], ['raise', E, 'from', E], ['pass'], ['break'], ['continue'],
        ['del', N('deltarget')], ['global', 'g'], ['global', 'g', ',', 'h'], ['nonlocal', 'g'], ['assert', E], ['assert', E, ',', E],
        ['import', N('dotted')], ['import', N('dotted'), 'as', 'n'], ['import', N('dotted'), ',', N('dotted')],
        ['from', N('fromloc'), 'import', N('impnames')],
        ['type', 'T', '=', E], ['type', 'T', '[', N('tparams'), ']', '=', E],
    ],
    'rhs': [[E], [E, ',', E], [E, ','], ['*', E, ',', E], ['yield'], ['yield', E], ['yield', 'from', E]],
    'deltarget': [['t'], ['t', '.', 'm'], ['t', '[', E, ']'], ['t', ',', 'u'], ['(', 't', ',', 'u', ')'], ['[', 't', ']'], ['(', 't', ')'], ['t', ','], ['(', ')'], ['[', ']']],
    'dotted': [['m'], ['m', '.', 'n'], ['m', '.', 'n', '.', 'o']],
    'fromloc': [['m'], ['.', 'm'], ['.'], ['..'], ['...'], ['....', 'm'], ['m', '.', 'n'], ['..', 'm', '.', 'n']],
    'impnames': [['x'], ['x', 'as', 'y'], ['x', ',', 'y'], ['(', 'x', ')'], ['(', 'x', ',', ')'], ['(', 'x', 'as', 'y', ',', 'z', ')'], ['*']],
    'tparams': [['T1'], ['T1', ':', E], ['*', 'Ts'], ['**', 'P'], ['T1', ',', 'T2'], ['T1', ',']],
    'nexpr': [[E], ['w', ':=', E]],
    'rhsiter': [[E], [E, ',', E], ['*', E, ',', E]],
    'handlers': [['except', ':', N('suite')], ['except', E, ':', N('suite')], ['except', E, 'as', 'e', ':', N('suite')],
                 ['except', E, ':', N('suite'), 'except', ':', N('suite')]],
    'withitems': [[E], [E, 'as', N('wtarget')], [E, ',', E], [E, 'as', 'v', ',', E, 'as', 'w'], ['(', E, ')'], ['(', E, ',', E, ')'], ['(', E, ',', ')'],
                  ['(', E, 'as', 'v', ')'], ['(', E, 'as', 'v', ',', E, ',', ')'], ['(', E, ',', E, ')', 'as', 'v'], ['(', E, ')', 'as', 'v']],
    'wtarget': [['v'], ['v', '.', 'm'], ['v', '[', E, ']'], ['(', 'v', ',', 'w', ')'], ['[', 'v', ',', 'w', ']'], ['(', 'v', ')'], ['*', 'v', ',', 'w']],
    'decos': [[], ['@', N('nexpr'), 'NL'], ['@', E, 'NL', '@', E, 'NL']],
    'params': [[], ['p'], ['p', ','], ['p', '=', E], ['p', ':', E], ['p', ':', E, '=', E], ['p', ',', 'q'], ['p', ',', '/'], ['p', ',', '/', ',', 'q'],
               ['p', '=', E, ',', '/', ',', 'q', '=', E],
               ['*', 'a'], ['*', 'a', ':', E], ['*', 'a', ':', '*', E], ['*', ',', 'k'], ['*', ',', 'k', '=', E], ['*', ',', 'k', '=', E, ',', 'l'],
               ['*', 'a', ',', 'k'], ['**', 'kw'], ['**', 'kw', ':', E], ['**', 'kw', ','],
               ['p', ',', '*', 'a', ',', 'k', ',', '**', 'kw'], ['p', ',', '*', ',', 'k'], ['p', ',', '**', 'kw'], ['p', ',', '/', ',', '*', ',', 'k']],
    'args': [[E], [E, ',', E], ['k', '=', E], ['*', E], ['**', E], [E, ',', 'k', '=', E], ['k', '=', E, ',', '*', E], ['k', '=', E, ',', '**', E],
             ['*', E, ',', 'k', '=', E], [E, ','], [E, 'for', 't', 'in', E], ['k', '=', E, ',', 'l', '=', E], ['**', E, ',', 'k', '=', E]],
    'subject': [[E], [E, ','], [E, ',', E], ['*', E, ','], ['w', ':=', E]],
    'cases': [[N('case')], [N('case'), N('case')]],
    'case': [['case', N('pats'), ':', N('suite')], ['case', N('pats'), 'if', N('nexpr'), ':', N('suite')]],
    'pats': [[N('pat')], [N('pat'), ','], [N('pat'), ',', N('pat')], [N('pat'), ',', N('pat'), ','], ['*', 'r', ',', N('pat')]],
    'pat': [['c'], ['_'], ['1'], ['-', '1'], ['1', '+', '2j'], ['-', '1', '-', '2j'], ["'s'"], ["'s'", "'t'"], ["b'x'"], ['None'], ['True'], ['False'], ['1.5'],
            ['m', '.', 'n'], ['m', '.', 'n', '.', 'o'], ['(', N('pat'), ')'], ['[', ']'], ['[', N('pat'), ']'], ['[', N('pat'), ',', N('pat'), ']'],
            ['[', N('pat'), ',', '*', 'r', ']'], ['[', '*', '_', ']'], ['(', ')'], ['(', N('pat'), ',', ')'], ['(', N('pat'), ',', N('pat'), ')'],
            ['{', '}'], ['{', '1', ':', N('pat'), '}'], ['{', "'k'", ':', N('pat'), ',', '**', 'r', '}'], ['{', '**', 'r', '}'],
            ['{', 'm', '.', 'n', ':', N('pat'), ',', '}'], ['{', 'None', ':', N('pat'), ',', '-', '1', ':', N('pat'), '}'],
            ['K', '(', ')'], ['K', '(', N('pat'), ')'], ['K', '(', N('pat'), ',', N('pat'), ')'], ['K', '(', 'x', '=', N('pat'), ')'],
            ['K', '(', N('pat'), ',', 'x', '=', N('pat'), ')'], ['m', '.', 'K', '(', N('pat'), ',', ')'], ['K', '(', 'x', '=', N('pat'), ',', 'y', '=', N('pat'), ',', ')'],
            [N('pat'), '|', N('pat')], [N('pat'), '|', N('pat'), '|', N('pat')], [N('pat'), 'as', 'z'], ['(', N('pat'), 'as', 'z', ')']],
    'expr': [[N('atom')]]
            + [[E, op, E] for op in binops] + [[E, op, E] for op in cmps] + [[E, '<', E, '<', E]]
            + [[E, 'and', E], [E, 'or', E], [E, 'and', E, 'and', E]]
            + [['not', E], ['-', E], ['+', E], ['~', E]]
            + [[E, 'if', E, 'else', E]]
            + [['lambda', ':', E], ['lambda', 'p', ':', E], ['lambda', 'p', ',', 'q', '=', E, ':', E], ['lambda', '*', 'a', ',', 'k', ',', '**', 'kw', ':', E],
               ['lambda', 'p', ',', '/', ',', '*', ',', 'k', ':', E]]
            + [['await', E]]
            + [['(', E, ')'], ['(', 'q', ':=', E, ')']]
            + [[E, '(', ')'], [E, '(', N('args'), ')']]
            + [[E, '[', E, ']'], [E, '[', E, ':', E, ']'], [E, '[', ':', ']'], [E, '[', E, ':', E, ':', E, ']'], [E, '[', ':', ':', E, ']'], [E, '[', E, ':', ']'],
               [E, '[', E, ',', E, ']'], [E, '[', E, ':', E, ',', E, ']'], [E, '[', E, ',', ']'], [E, '[', '*', E, ']'], [E, '[', '*', E, ',', E, ']'],
               [E, '[', 'i', ':=', E, ']'], [E, '.', 'm']]
            + [['[', ']'], ['[', E, ']'], ['[', E, ',', E, ']'], ['[', E, ',', ']'], ['[', '*', E, ',', E, ']'], ['(', ')'], ['(', E, ',', ')'], ['(', E, ',', E, ')'],
               ['(', '*', E, ',', E, ')'], ['{', '}'], ['{', E, '}'], ['{', E, ',', E, '}'], ['{', '*', E, '}'], ['{', E, ':', E, '}'], ['{', E, ':', E, ',', '**', E, '}'],
               ['{', '**', E, '}'], ['{', E, ':', E, ',', E, ':', E, ',', '}']]
            + [['[', E, N('comp'), ']'], ['(', E, N('comp'), ')'], ['{', E, N('comp'), '}'], ['{', E, ':', E, N('comp'), '}']]
            + [['(', 'yield', ')'], ['(', 'yield', E, ')'], ['(', 'yield', 'from', E, ')']],
    'comp': [['for', 't', 'in', E], ['for', 't', 'in', E, 'if', E], ['for', 't', 'in', E, 'if', E, 'if', E], ['for', 't', 'in', E, 'for', 'u', 'in', E],
             ['async', 'for', 't', 'in', E], ['for', 't', ',', 'u', 'in', E], ['for', 't', 'in', E, 'if', 'i', ':=', E]],
    'atom': [['a'], ['1'], ["'s'"], ['None'], ['...'], ["f'{", E, "}'"], ['1.5'], ['2j'], ["b'x'"], ['True'], ['False'], ["'s'", "'t'"], ['1', '.', 'real'],
             ["f'x{", E, "!r:>{", E, "}}y'"], ['0x1f'], ["u's'"], ["f'{", E, "=}'"], ["'s'", "f'{", E, "}'"]],
}
# expression-only start symbol (for Expression mode and the C11 corpus)
G['exprfile'] = [[E]]

PEP695_TOKENS = {'tparams'}


def n_alternatives(g=G):
    return sum(len(v) for v in g.values())


class Enum:
    """Streaming deviation-bounded enumeration. gen(sym, budget) yields (tokens, cost, uses695)."""

    def __init__(self, g=G, memo_budget=1):
        self.g = g
        self.memo_budget = memo_budget
        self.memo = {}

    def gen(self, sym, budget, path=()):
        if isinstance(sym, str):
            yield (sym,), 0
            return
        name = sym[1]
        if not path and budget <= self.memo_budget:
            key = (name, budget)
            m = self.memo.get(key)
            if m is None:
                m = self.memo[key] = list(self._gen(name, budget, ()))
            yield from m
            return
        yield from self._gen(name, budget, path)

    def _gen(self, name, budget, path):
        alts = self.g[name]
        idxs = range(len(alts)) if not path else (path[0],)
        for i in idxs:
            c0 = 0 if i == 0 else 1
            if c0 > budget:
                continue
            for toks, c in self.genseq(alts[i], 0, budget - c0, path[1:] if path else ()):
                yield toks, c + c0

    def genseq(self, seq, k, budget, path):
        if k == len(seq):
            yield (), 0
            return
        s = seq[k]
        if isinstance(s, str):
            for t2, c2 in self.genseq(seq, k + 1, budget, path):
                yield (s,) + t2, c2
            return
        # the forced path applies to the first non-terminal of the sequence only
        for t1, c1 in self.gen(s, budget, path):
            for t2, c2 in self.genseq(seq, k + 1, budget - c1, ()):
                yield t1 + t2, c1 + c2


SPINE = {'file', 'stmts', 'stmt', 'simple', 'expr', 'exprfile'}


def first_nonterminal(alt):
    for s in alt:
        if not isinstance(s, str):
            return s[1]
    return None


def spine_shards(start='file', g=G, depth_syms=SPINE):
    """All forced-alternative paths along the leftmost spine: the union of the shards is exactly the set of all
    derivations, and the shards are pairwise disjoint (they differ in a forced alternative)."""
    out = []

    def rec(name, prefix, seen_expr):
        for i, alt in enumerate(g[name]):
            nt = first_nonterminal(alt)
            p = prefix + (i,)
            # refine further only through the spine and only one level into 'expr'
            if nt in depth_syms and not (name == 'expr'):
                rec(nt, p, seen_expr)
            else:
                out.append(p)

    rec(start, (), False)
    return out


def shard_min_cost(path):
    return sum(1 for i in path if i > 0)


def uses_pep695(toks):
    return toks[0] == 'type' and len(toks) > 2 and toks[2] in ('=', '[') or _has_tparams(toks)


def _has_tparams(toks):
    # def f [ ... ] (   /  class C [ ... ]
    for i in range(len(toks) - 2):
        if toks[i] in ('def', 'class') and toks[i + 2] == '[':
            return True
    return False


# ---------------------------------------------------------------- rendering
class Layout:
    def __init__(self, name='plain', indent='    ', nl='\n', bom=False, final_nl=True, ident_map=None, spread=False, comments=False, trivia_run=0):
        self.name, self.indent, self.nl, self.bom, self.final_nl, self.ident_map = name, indent, nl, bom, final_nl, ident_map or {}
        self.spread = spread  # line-spread: every bracketed element on its own (indented) line
        self.comments = comments  # a comment after every line, then a comment-only line and a blank line
        self.trivia_run = trivia_run  # after every line: that many blank lines and that many comment-only lines (column 0)


PLAIN = Layout()
LAYOUTS = {
    'plain': PLAIN,
    'crlf': Layout('crlf', nl='\r\n'),
    'cr': Layout('cr', nl='\r'),
    'bom': Layout('bom', bom=True),
    'tab': Layout('tab', indent='\t'),
    'nofinalnl': Layout('nofinalnl', final_nl=False),
    'comments': Layout('comments', comments=True),
    'comments-crlf-tab': Layout('comments-crlf-tab', comments=True, nl='\r\n', indent='\t'),
    'spread-comments': Layout('spread-comments', spread=True, comments=True),
    'spread': Layout('spread', spread=True),
    'trivia-run': Layout('trivia-run', trivia_run=9),
    'spread-crlf': Layout('spread-crlf', spread=True, nl='\r\n', ident_map={'a': 'é'}),
    'multibyte': Layout('multibyte', ident_map={'a': 'é', 't': '名', 'm': 'ñ', "'s'": "'日本'", 'f': 'ƒ', 'p': 'π', 'k': 'ключ', 'C': 'Ç', 'x': 'ξ'}),
}


def render(toks, layout=PLAIN, spans=None):
    """tokens -> text. If `spans` is a list it receives (token_index, start_byte, end_byte, line_no)."""
    out = []
    level = 0
    line = []
    pos = 3 if layout.bom else 0
    if layout.bom:
        out.append('\ufeff')
    depth = 0          # bracket depth (spread layout only)
    line_depth = 0     # bracket depth at the start of the current physical line
    fdepth = 0
    lineno = 0
    im = layout.ident_map

    def flush():
        nonlocal line, pos, lineno
        s = layout.indent * level + '  ' * line_depth
        p = pos + len(s.encode())
        for j, (ti, t) in enumerate(line):
            if j:
                s += ' '
                p += 1
            b = len(t.encode())
            if spans is not None:
                spans.append((ti, p, p + b, lineno))
            s += t
            p += b
        if layout.comments:
            extra = ' # c' + layout.nl + '  # é' + layout.nl
            s += extra
            p += len(extra.encode())
            lineno += 2
        s += layout.nl
        if layout.trivia_run:
            extra = layout.nl * layout.trivia_run + ('#' + layout.nl) * layout.trivia_run
            s += extra
            p += len(extra.encode())
            lineno += 2 * layout.trivia_run
        out.append(s)
        pos = p + len(layout.nl)
        line = []
        lineno += 1

    def push(ti, t):
        nonlocal line_depth
        if not line:
            line_depth = depth
        line.append((ti, im.get(t, t)))

    for ti, t in enumerate(toks):
        if t == 'NL':
            flush()
        elif t == 'IND':
            level += 1
        elif t == 'DED':
            level -= 1
        elif not layout.spread:
            push(ti, t)
        else:
            # brackets opened by plain bracket tokens, outside f-string literals, may contain line breaks
            if t[:1] in 'fF' and len(t) > 1 and t[1] in '\'"' and t.endswith('{'):
                fdepth += 1
            elif fdepth and t.startswith('}') and t[-1] in '\'"':
                fdepth -= 1
            if fdepth:
                push(ti, t)
                continue
            if t in (')', ']', '}') and depth > 0:
                depth -= 1
                if line:
                    flush()
            push(ti, t)
            if t in ('(', '[', '{'):
                depth += 1
                flush()
            elif t == ',' and depth > 0:
                flush()
    if line:
        flush()
    text = ''.join(out)
    if not layout.final_nl and text.endswith(layout.nl):
        text = text[:len(text) - len(layout.nl)]
    return text


NAME_RE = re.compile(r'^[A-Za-z_][A-Za-z0-9_]*$')
KEYWORDS = set(keyword.kwlist)


def is_name_token(t):
    return bool(NAME_RE.match(t)) and t not in KEYWORDS and t not in ('NL', 'IND', 'DED', 'match', 'case', 'type', '_')
