"""Shared machinery: builds, worker batches, parallel shards, findings, evidence, verdict lines."""
import os, sys, json, time, subprocess, hashlib, fcntl, re, multiprocessing, traceback, collections

ROOT = os.path.dirname(os.path.dirname(os.path.abspath(__file__)))
HARNESS = os.path.join(ROOT, 'harness')
REPO = '/repo'
NPROC = int(os.environ.get('VERIF_NPROC', '16'))
CONFIGS = {'default': 'cfg-default', 'full-lexer': 'cfg-full-lexer', 'all-nodes': 'cfg-all-nodes', 'num-bigint': 'cfg-num-bigint'}


class Machinery(Exception):
    """Engine trouble: never a verdict (exit status 2)."""


def hx(s):
    if isinstance(s, str):
        s = s.encode('utf-8', 'surrogatepass')
    return s.hex()


# ---------------------------------------------------------------- builds
def worker_path(cfg='default'):
    return os.path.join(HARNESS, 'target', cfg, 'release', 'vworker')


def build(cfgs=('default',), quiet=True):
    """cargo build each configuration (own target dir each, so they can be built concurrently).
    Always invoked by a check: a no-op when /repo is unchanged."""
    os.makedirs(os.path.join(HARNESS, 'target'), exist_ok=True)
    procs = []
    locks = []
    for cfg in cfgs:
        lock = open(os.path.join(HARNESS, 'target', '.lock-' + cfg), 'w')
        fcntl.flock(lock, fcntl.LOCK_EX)
        locks.append(lock)
        env = dict(os.environ)
        env['CARGO_TARGET_DIR'] = os.path.join(HARNESS, 'target', cfg)
        env['CARGO_NET_OFFLINE'] = 'true'
        cmd = ['cargo', 'build', '--release', '--offline', '--no-default-features', '--features', CONFIGS[cfg], '-p', 'vworker']
        procs.append((cfg, subprocess.Popen(cmd, cwd=HARNESS, env=env, stdout=subprocess.PIPE, stderr=subprocess.STDOUT, text=True)))
    for (cfg, p), lock in zip(procs, locks):
        out, _ = p.communicate()
        fcntl.flock(lock, fcntl.LOCK_UN)
        lock.close()
        if p.returncode != 0:
            sys.stderr.write(out[-6000:])
            raise Machinery('cargo build failed for configuration %s' % cfg)
        if not quiet:
            sys.stderr.write(out[-300:])


# ---------------------------------------------------------------- worker batches
BATCH_TIMEOUT = float(os.environ.get('VERIF_BATCH_TIMEOUT', '120'))


def _run_once(cfg, lines, timeout):
    data = ('\n'.join(lines) + '\n').encode()
    for attempt in (0, 1, 2):
        try:
            p = subprocess.run([worker_path(cfg), 'batch'], input=data, stdout=subprocess.PIPE, stderr=subprocess.PIPE, timeout=timeout)
            break
        except subprocess.TimeoutExpired:
            return None, 'hang'
        except (FileNotFoundError, PermissionError, OSError) as e:
            # another check is relinking this configuration right now: wait for its build lock, then try again
            if attempt == 2:
                raise Machinery('worker binary for configuration %s is not runnable: %s' % (cfg, e))
            with open(os.path.join(HARNESS, 'target', '.lock-' + cfg), 'w') as lock:
                fcntl.flock(lock, fcntl.LOCK_EX)
                fcntl.flock(lock, fcntl.LOCK_UN)
            time.sleep(0.5)
    out = p.stdout.decode('utf-8', 'replace').split('\n')
    if out and out[-1] == '':
        out.pop()
    if p.returncode != 0 or len(out) != len(lines):
        tail = p.stderr.decode('utf-8', 'replace')[-300:]
        return None, 'crash rc=%s %s' % (p.returncode, tail.strip().replace('\n', ' | '))
    return out, None


def run_worker_raw(lines, cfg='default', timeout=None):
    """Run request lines; returns one raw response string per line. A line that kills or hangs the worker
    gets the observation {"crash": …} / {"hang": true} (found by bisection)."""
    if not lines:
        return []
    timeout = timeout or BATCH_TIMEOUT
    out, err = _run_once(cfg, lines, timeout)
    if out is not None:
        return out
    if len(lines) == 1:
        if err == 'hang':
            return ['{"hang":true}']
        return [json.dumps({'crash': re.sub(r'\s+', ' ', err)[:200]})]
    mid = len(lines) // 2
    # after the first failure use a shorter timeout: single cases are fast
    t2 = max(10.0, timeout / 4)
    return run_worker_raw(lines[:mid], cfg, t2) + run_worker_raw(lines[mid:], cfg, t2)


def run_worker(lines, cfg='default', timeout=None):
    res = []
    for raw in run_worker_raw(lines, cfg, timeout):
        try:
            v = json.loads(raw)
        except Exception:
            raise Machinery('worker returned non-JSON: %r' % raw[:200])
        if isinstance(v, dict) and 'machinery' in v:
            raise Machinery('worker: %s' % v['machinery'])
        res.append(v)
    return res


def run_engine(name, kv, cfg='default', timeout=3600):
    cmd = [worker_path(cfg), 'engine', name] + ['%s=%s' % (k, v) for k, v in kv.items()]
    p = subprocess.run(cmd, stdout=subprocess.PIPE, stderr=subprocess.PIPE, timeout=timeout)
    if p.returncode != 0:
        raise Machinery('engine %s failed rc=%s: %s' % (name, p.returncode, p.stderr.decode('utf-8', 'replace')[-500:]))
    try:
        return json.loads(p.stdout.decode('utf-8'))
    except Exception as e:
        raise Machinery('engine %s: bad JSON (%s): %r' % (name, e, p.stdout[-300:]))


# ---------------------------------------------------------------- parallel shards
def _shard_entry(args):
    func, shard = args
    try:
        return ('ok', func(shard))
    except Machinery as e:
        return ('machinery', str(e))
    except Exception:
        return ('machinery', traceback.format_exc())


def pmap(func, shards, nproc=None):
    """Deterministic parallel map (results in shard order). func must be a module-level function."""
    shards = list(shards)
    if not shards:
        return []
    nproc = min(nproc or NPROC, len(shards))
    if nproc <= 1:
        res = [_shard_entry((func, s)) for s in shards]
    else:
        ctx = multiprocessing.get_context('fork')
        with ctx.Pool(nproc) as pool:
            res = pool.map(_shard_entry, [(func, s) for s in shards], chunksize=1)
    out = []
    for st, v in res:
        if st != 'ok':
            raise Machinery(v)
        out.append(v)
    return out


# ---------------------------------------------------------------- failures and findings
def norm_obs(o):
    """Normalise an observation for digests: drop file:line from panic messages."""
    if isinstance(o, dict):
        return {k: (re.sub(r' @ \S+:\d+$', '', v) if k == 'panic' and isinstance(v, str) else norm_obs(v)) for k, v in o.items()}
    if isinstance(o, list):
        return [norm_obs(x) for x in o]
    return o


def digest(prop, op, inp, obs):
    h = hashlib.sha256()
    h.update(json.dumps([prop, op, inp, norm_obs(obs)], sort_keys=True, ensure_ascii=True, default=repr).encode())
    return h.hexdigest()[:16]


class Fail:
    """One failing case. sig = shape of the failure; inp = replayable input (JSON-able); obs/ref = what was seen / expected."""
    __slots__ = ('prop', 'sig', 'op', 'inp', 'obs', 'ref', 'note')

    def __init__(self, prop, sig, op, inp, obs, ref=None, note=''):
        self.prop, self.sig, self.op, self.inp, self.obs, self.ref, self.note = prop, sig, op, inp, obs, ref, note

    def digest(self):
        return digest(self.prop, self.op, self.inp, self.obs)

    def to_json(self):
        return {'property': self.prop, 'signature': self.sig, 'op': self.op, 'input': self.inp, 'observed': self.obs,
                'expected': self.ref, 'note': self.note, 'digest': self.digest()}


def load_findings():
    path = os.path.join(ROOT, 'known_findings.jsonl')
    out = []
    if os.path.exists(path):
        for line in open(path):
            line = line.strip()
            if not line or line.startswith('#') or line.startswith('fixed:'):
                continue
            rec = json.loads(line)
            if rec.get('status') == 'open':
                ds = None
                if rec.get('digests'):
                    dpath = os.path.join(ROOT, rec['digests'])
                    ds = set(open(dpath).read().split()) if os.path.exists(dpath) else set()
                rec['_digests'] = ds
                rec['_sig'] = re.compile(rec['signature']) if rec.get('signature_is_regex') else None
                rec['_pat'] = re.compile(rec['input_pattern'], re.S) if rec.get('input_pattern') else None
            out.append(rec)
    return out


def match_finding(findings, f):
    for rec in findings:
        if rec.get('status') != 'open' or rec['property'] != f.prop:
            continue
        if rec['_sig'] is not None:
            if not rec['_sig'].fullmatch(f.sig):
                continue
        elif rec['signature'] != f.sig:
            continue
        if rec['_pat'] is not None:
            s = f.inp if isinstance(f.inp, str) else json.dumps(f.inp, ensure_ascii=False, sort_keys=True)
            if not rec['_pat'].search(s):
                continue
        if rec['_digests'] is not None and f.digest() not in rec['_digests']:
            continue
        return rec
    return None


# ---------------------------------------------------------------- evidence + verdict
class Result:
    """Accumulates what a run covered; merged across shards."""

    def __init__(self):
        self.evaluations = 0
        self.states = 0
        self.transitions = 0
        self.validated = 0
        self.nontrivial = 0
        self.outcomes = collections.Counter()
        self.by_bound = collections.Counter()
        self.samples = []
        self.fails = []
        self.extra = {}
        self.caps_hit = []
        self.exhaustive = True
        self.info = collections.Counter()

    def merge(self, o):
        self.evaluations += o.evaluations
        self.states += o.states
        self.transitions += o.transitions
        self.validated += o.validated
        self.nontrivial += o.nontrivial
        self.outcomes.update(o.outcomes)
        self.by_bound.update(o.by_bound)
        self.info.update(o.info)
        for s in o.samples:
            if len(self.samples) < 24:
                self.samples.append(s)
        self.fails.extend(o.fails)
        self.caps_hit.extend(o.caps_hit)
        self.exhaustive = self.exhaustive and o.exhaustive
        for k, v in o.extra.items():
            if isinstance(v, (int, float)) and isinstance(self.extra.get(k), (int, float)):
                self.extra[k] += v
            elif isinstance(v, dict) and isinstance(self.extra.get(k), dict):
                for kk, vv in v.items():
                    self.extra[k][kk] = self.extra[k].get(kk, 0) + vv if isinstance(vv, (int, float)) else vv
            else:
                self.extra[k] = v
        return self


MAX_FAILS_PER_SHARD = 200000


def finish(prop, tier, seed, t0, res, rule, assumptions, oracle_version=None):
    """Triage failures against known findings, write evidence + replays, print verdict lines, return exit code."""
    findings = load_findings()
    known = collections.Counter()
    known_rec = {}
    new = []
    seen_digests = set()
    dump_all = open(os.environ['VERIF_DUMP'], 'w') if os.environ.get('VERIF_DUMP') else None
    for f in res.fails:
        d = f.digest()
        if d in seen_digests:
            continue
        seen_digests.add(d)
        if dump_all is not None:
            # maintenance only (never part of a registered check): dump every failing case, explained or not, for review / digest files
            dump_all.write(json.dumps(f.to_json(), ensure_ascii=False, default=repr) + '\n')
        rec = match_finding(findings, f)
        if rec is not None:
            known[rec['id']] += 1
            known_rec[rec['id']] = rec
        else:
            new.append(f)
    if dump_all is not None:
        dump_all.close()
    if os.environ.get('VERIF_TRIAGE'):
        bysig = collections.OrderedDict()
        for f in new:
            bysig.setdefault(f.sig, []).append(f)
        print('TRIAGE %s: %d unexplained failing cases in %d signatures' % (prop, len(new), len(bysig)))
        for sig, fs in sorted(bysig.items(), key=lambda kv: -len(kv[1]))[:int(os.environ.get('VERIF_TRIAGE_TOP', '40'))]:
            print('%7d  %s' % (len(fs), sig))
            for f in fs[:int(os.environ.get('VERIF_TRIAGE_N', '3'))]:
                print('           in=%s obs=%s ref=%s' % (json.dumps(f.inp, ensure_ascii=False, default=repr)[:160], json.dumps(f.obs, ensure_ascii=False, default=repr)[:160],
                                                          json.dumps(f.ref, ensure_ascii=False, default=repr)[:160]))
    rdir = os.path.join(ROOT, 'replays', prop)
    lines = []
    for kid in sorted(known):
        lines.append('KNOWN-FINDING: property=%s %s %s (%d cases)' % (prop, kid, known_rec[kid]['title'], known[kid]))
    if new:
        os.makedirs(rdir, exist_ok=True)
        # group by signature: one replay file per signature (first = simplest in enumeration order), up to 40
        bysig = collections.OrderedDict()
        for f in new:
            bysig.setdefault(f.sig, []).append(f)
        for k, (sig, fs) in enumerate(bysig.items()):
            if k >= 40:
                break
            path = os.path.join(rdir, '%s-%03d.json' % (tier, k))
            with open(path, 'w') as fh:
                json.dump({'property': prop, 'signature': sig, 'count': len(fs), 'case': fs[0].to_json(),
                           'more': [x.to_json() for x in fs[1:6]]}, fh, indent=1, ensure_ascii=False, default=repr)
            lines.append('VIOLATION property=%s replay=%s' % (prop, path))
            sys.stderr.write('  [%s] %d case(s), signature: %s\n    first input: %r\n    observed: %s\n    expected: %s\n' % (
                prop, len(fs), sig, fs[0].inp, json.dumps(fs[0].obs, ensure_ascii=False, default=repr)[:300],
                json.dumps(fs[0].ref, ensure_ascii=False, default=repr)[:300]))
    cov = {
        'states': max(res.states, 1) if res.evaluations else res.states,
        'transitions': max(res.transitions, 1) if res.evaluations else res.transitions,
        'traces_validated_against_impl': res.validated,
        'evaluations': res.evaluations,
        'distinct_nontrivial': res.nontrivial,
        'distinct_outcomes': len(res.outcomes),
        'outcome_histogram': dict(sorted(res.outcomes.items(), key=lambda kv: -kv[1])[:40]),
        'rule': rule,
        'by_bound': {str(k): v for k, v in sorted(res.by_bound.items(), key=lambda kv: str(kv[0]))},
        'exhaustive': bool(res.exhaustive and not res.caps_hit),
        'caps_hit': res.caps_hit,
        'known_findings_seen': dict(known),
        'new_violation_cases': len(new),
        'samples': res.samples[:24] or ['<none>'],
        'info': dict(res.info),
    }
    if oracle_version:
        cov['oracle_version'] = oracle_version
    cov.update(res.extra)
    ev = {'property_id': prop, 'tier': tier, 'seed': int(seed), 'level': 'model_checking', 'coverage': cov,
          'assumptions': assumptions, 'wall_s': round(time.time() - t0, 2), 'violations': len(new)}
    os.makedirs(os.path.join(ROOT, 'evidence'), exist_ok=True)
    with open(os.path.join(ROOT, 'evidence', prop + '.json'), 'w') as fh:
        json.dump(ev, fh, indent=1, ensure_ascii=False, default=repr)
        fh.write('\n')
    for l in lines:
        print(l)
    print('%s %s: evaluations=%d states=%d transitions=%d distinct_nontrivial=%d outcomes=%d known=%d new=%d exhaustive=%s wall=%.1fs' % (
        prop, tier, res.evaluations, cov['states'], cov['transitions'], res.nontrivial, len(res.outcomes), sum(known.values()), len(new),
        cov['exhaustive'], time.time() - t0))
    return 1 if new else 0


def py_version():
    return 'CPython %d.%d.%d' % sys.version_info[:3]


def require_311():
    if sys.version_info[:2] != (3, 11):
        raise Machinery('the reference oracle must be CPython 3.11, found %s' % sys.version)


def engine_to_result(prop, d, op):
    """Convert the JSON report of a Rust engine into a Result (fails become Fail objects)."""
    r = Result()
    r.evaluations = d['evaluations']
    r.nontrivial = d['nontrivial']
    r.states = d.get('states') or d['evaluations']
    r.transitions = d.get('transitions') or d['evaluations']
    r.validated = d['evaluations']
    r.by_bound.update(d.get('by_bound', {}))
    r.outcomes.update(d.get('outcomes', {}))
    r.samples = list(d.get('samples', []))
    shown = collections.Counter()
    for sig, inp, obs, ref in d['fails']:
        shown[sig] += 1
        r.fails.append(Fail(prop, sig, op, inp, obs, ref))
    for sig, n in d.get('fail_counts', {}).items():
        if n > shown[sig]:
            r.info['failing cases beyond the per-signature report cap: ' + sig] += n - shown[sig]
    if not r.outcomes:
        r.outcomes['held'] = r.evaluations - sum(d.get('fail_counts', {}).values())
        for sig, n in d.get('fail_counts', {}).items():
            r.outcomes['FAIL ' + sig] = n
    return r
