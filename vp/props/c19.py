"""C19 — printf-style (%) template parsing and formatting equal Python's.
(A) E-STR: every template over the specifier alphabet, in text and bytes form, parsed by the real CFormatString /
CFormatBytes and formatted end-to-end (the harness plays the interpreter and binds '*' and keys), vs `template % args`.
(B) E-PROD: specifier product key x flags x width x precision x length modifier x type letter x values."""
import time, json, itertools, struct, re, string
from .. import common as C, explore as X

PROP = 'C19'
T_SIGMA = ['%', '(', ')', 'd', 's', '5', '.', '*', '-', 'a', 'é', 'l', 'h']


class V(int):
    def __bytes__(self):
        return b'5'


class M(dict):
    def __missing__(self, k):
        return V(5)


def py_template(t, is_bytes):
    tt = t.encode('utf-8') if is_bytes else t
    k = t.count('%') + t.count('*') + 1
    rej = None
    for n in range(0, k + 1):
        try:
            return ('ok', tt % ((V(5),) * n), n)
        except ValueError as e:
            rej = str(e)
        except (TypeError, OverflowError):
            pass
    if '(' in t:
        try:
            return ('ok', tt % M(), 'map')
        except ValueError as e:
            rej = str(e)
        except (TypeError, OverflowError):
            pass
    if rej is not None:
        return ('reject', rej)
    return ('typeerror',)


def judge_template(t, is_bytes, obs):
    """-> (outcome, sig|None, ref)"""
    ref = py_template(t, is_bytes)
    kind = 'bytes-template' if is_bytes else 'template'
    if 'panic' in obs or 'crash' in obs or 'hang' in obs:
        return 'panic', '%s · obs=panic "%s"' % (kind, C.norm_obs(obs).get('panic', 'crash')[:60]), ref
    if 'err' in obs:
        if ref[0] == 'reject':
            m = re.search(r'at index (\d+)', ref[1])
            if m and obs['err'].get('t') == 'UnsupportedFormatChar':
                # CPython's index counts characters (text) / bytes (bytes); the crate's counts the same units
                if int(m.group(1)) != obs['index']:
                    return 'reject-index', '%s · both reject · error index differs' % kind, ref
            return 'both-reject', None, ref
        if ref[0] == 'typeerror':
            return 'unjudged', None, ref
        return 'over-reject', '%s · ref=ok · obs=err(%s)' % (kind, obs['err'].get('t')), ref
    if ref[0] == 'reject':
        return 'over-accept', '%s · ref=reject · obs=ok' % kind, ref
    if ref[0] == 'typeerror':
        return 'unjudged', None, ref
    # check_specifiers(): (number of specifiers, whether they take a mapping), None when keyed and unkeyed specifiers are mixed
    want = None if 0 < obs['keyed'] < obs['nspec'] else [obs['nspec'], obs['keyed'] > 0]
    if obs.get('check') != want:
        return 'check-specifiers', '%s · check_specifiers differs from the census of the parsed specifiers' % kind, ref
    if 0 < obs['keyed'] < obs['nspec']:
        return 'mixed-keys', None, ref
    got = bytes.fromhex(obs['okhex']) if is_bytes else obs['ok']
    if got == ref[1]:
        return 'equal', None, ref
    return 'differ', '%s · ref=ok · obs=ok · text differs' % kind, ref


# ---------------------------------------------------------------- specifier product
KEYS = ['', '(k)', '(a(b)c)', '(k', '()']
FLAGCH = ['#', '0', '-', ' ', '+']
WIDTHS = ['', '1', '8', '*']
PRECS = ['', '.', '.0', '.3', '.*']
LENMODS = {'quick': ['', 'l', 'll'], 'thorough': ['', 'h', 'l', 'L', 'll', 'hl', 'lL', 'lll']}
TYPES = list(string.ascii_letters) + ['%']
INTS = [0, 1, -1, 7, 255, -255, 65536, 1234567, 10 ** 20, -10 ** 20]
FLOATS = [0.0, -0.0, 1.0, -1.5, 0.5, 1234.5678, 1e-7, 1e16, 1e22, 123456789.0, float('inf'), float('-inf'), float('nan'), 2.675, 99999.5, 5.0, 123.0, 123456.0, 9.5, 999999.5, 2.5]
STRS = ['', 'a', 'héllo', 'abcdefghijkl']
CHARS = [0, 97, 255, 0x10ffff, 'a', 'é', '😀']
BYTESV = [b'', b'ab', b'abcdefgh', b'abcdefghijkl', b'\xff\x00']


def fbits(x):
    return '%016x' % struct.unpack('<Q', struct.pack('<d', x))[0]


def values_for(typ):
    if typ in 'diuoxX':
        return [('i', v) for v in INTS]
    if typ in 'eEfFgG':
        return [('f', v) for v in FLOATS] + [('f', float(v)) for v in (7, -255)]
    if typ == 'c':
        return [('c', v) for v in CHARS]
    if typ in 'sra':
        return [('s', v) for v in STRS] + [('s', 12345)] + [('y', v) for v in BYTESV]
    if typ == 'b':
        # %b exists for bytes templates only; whether a text template may use it is the interpreter's decision (the spec parser is shared)
        return [('y', v) for v in BYTESV]
    if typ == '%':
        return [('%', None)]
    return [('i', 7)]


def flag_seqs(tier):
    n = 1 if tier == 'quick' else 2
    out = ['']
    for l in range(1, n + 1):
        out += [''.join(t) for t in itertools.product(FLAGCH, repeat=l)]
    if tier == 'thorough':
        out += ['-0+', '0-#', ' +0', '#0-', '00-']
    return out


def spec_product(tier):
    for key, fl, w, p, lm, ty in itertools.product(KEYS, flag_seqs(tier), WIDTHS, PRECS, LENMODS[tier], TYPES):
        if ty == '%' and not (key or fl or w or p or lm):
            continue  # a bare '%%' is the template-level escape (covered by part A), not a specifier
        yield '%' + key + fl + w + p + lm + ty, key, w, p, ty


def py_spec(spec, key, w, p, ty, kind, v):
    """-> ('ok', text) | ('reject', msg) | ('skip', why)"""
    stars = []
    if w == '*':
        stars.append(6 if kind != 'c' else -6)
    if p == '.*':
        stars.append(2)
    if kind == 'y':
        tmpl = spec.encode()
    else:
        tmpl = spec
    if kind == '%':
        args = tuple(stars)
    elif key in ('(k)', '(a(b)c)', '()'):
        kk = key[1:-1]
        args = {(kk.encode() if kind == 'y' else kk): v}
        if stars:
            return ('skip', 'star with key')
    else:
        args = tuple(stars) + (v,)
    try:
        return ('ok', tmpl % args)
    except ValueError as e:
        return ('reject', str(e))
    except (TypeError, OverflowError) as e:
        return ('skip', type(e).__name__)


def req_line(spec, w, p, ty, kind, v):
    stars_w = ''
    stars_p = ''
    if w == '*':
        stars_w = str(6 if kind != 'c' else -6)
    if p == '.*':
        stars_p = '2'
    if kind == 'i':
        val = str(v)
    elif kind == 'f':
        val = fbits(v)
    elif kind == 'c':
        val = C.hx(chr(v) if isinstance(v, int) else v)
    elif kind == 's':
        sv = {'r': repr, 'a': ascii}.get(ty, str)(v)
        val = C.hx(sv)
    elif kind == 'y':
        bv = v if ty in 'sb' else ascii(v).encode()
        val = bv.hex()
    else:
        val = '0'
    k = {'%': 'i'}.get(kind, kind)
    return 'cfmt_spec\t%s\t%s\t%s\t%s\t%s' % (C.hx(spec), k, val, stars_w, stars_p)


def judge_spec(spec, key, w, p, ty, kind, v, obs):
    ref = py_spec(spec, key, w, p, ty, kind, v)
    if 'panic' in obs or 'crash' in obs or 'hang' in obs:
        return 'panic', 'spec/%s · obs=panic "%s"' % (kind, C.norm_obs(obs).get('panic', 'crash')[:60]), ref
    if ref[0] == 'skip':
        return 'unjudged', None, ref
    if 'err' in obs:
        if ref[0] == 'reject':
            m = re.search(r'at index (\d+)', ref[1])
            e = obs['err']
            # err is the ParsingError tuple (type, index)
            if m and isinstance(e, dict) and 'u' in e and e['u'][0].get('t') == 'UnsupportedFormatChar' and int(e['u'][1]['n']) != int(m.group(1)):
                return 'reject-index', 'spec · both reject · error index differs', ref
            return 'both-reject', None, ref
        return 'over-reject', 'spec/%s · ref=ok · obs=err · type=%s' % (kind, ty), ref
    if ref[0] == 'reject':
        return 'over-accept', 'spec/%s · ref=reject · obs=ok · type=%s' % (kind, ty), ref
    if 'skip' in obs:
        # the crate classifies the type differently from what Python did with this value kind: only judged through templates
        return 'unjudged', None, ref
    got = obs['ok']
    if kind == 'y':
        got = bytes.fromhex(got['hex']) if isinstance(got, dict) else got
    if got == ref[1]:
        return 'equal', None, ref
    return 'differ', 'spec/%s · ref=ok · obs=ok · text differs · type=%s' % (kind, ty), ref


BIG_QUANTITIES = ['2147483646', '2147483647', '2147483648', '2147483649', '2147483650', '4294967295', '4294967296', '9223372036854775807', '9223372036854775808',
                  '18446744073709551615', '18446744073709551616', '99999999999999999999999']


def run_job(job):
    r = C.Result()
    if job[0] == 'bigqty':
        ts = ['%' + q + 'd' for q in BIG_QUANTITIES] + ['%.' + q + 's' for q in BIG_QUANTITIES] + ['%(k)' + q + '.' + q + 'f' for q in BIG_QUANTITIES] + ['a%-0' + q + 'x%%' for q in BIG_QUANTITIES]
        res = C.run_worker(['cfmt_str\t' + C.hx(t) for t in ts] + ['cfmt_bytes\t' + C.hx(t) for t in ts])
        for t, obs in zip(ts + ts, res):
            r.evaluations += 1
            bad = isinstance(obs, dict) and ('panic' in obs or 'crash' in obs or 'hang' in obs)
            r.outcomes['bigqty:' + ('panic' if bad else 'no panic')] += 1
            if bad:
                r.fails.append(C.Fail(PROP, 'template · obs=panic on a huge width/precision', 'template', {'template': t}, obs, 'Ok or Err, no panic'))
        r.by_bound['huge quantities'] += len(res)
        r.states = r.transitions = r.validated = r.evaluations
        return r
    if job[0] == 'tmpl':
        n, shard = job[1], job[2]
        ts = [t for t, _ in X.shard_strings(T_SIGMA, n, shard)]
        res = C.run_worker(['cfmt_apply\ts\t%s\t5' % C.hx(t) for t in ts] + ['cfmt_apply\ty\t%s\t5' % C.hx(t) for t in ts])
        m = len(ts)
        for i, t in enumerate(ts):
            for is_bytes, obs in ((False, res[i]), (True, res[m + i])):
                out, sig, ref = judge_template(t, is_bytes, obs)
                r.evaluations += 1
                r.outcomes[('btmpl:' if is_bytes else 'tmpl:') + out] += 1
                if '%' in t:
                    r.nontrivial += 1
                if sig:
                    r.fails.append(C.Fail(PROP, sig, 'template', {'template': t, 'bytes': is_bytes}, obs, [str(x) for x in ref]))
            if len(r.samples) < 1 and len(t) >= 4 and res[i].get('nspec', 0) >= 1:
                r.samples.append({'template': t, 'rust': res[i].get('ok'), 'python': str(py_template(t, False))})
        r.by_bound['templates'] += 2 * m
    else:
        specs = job[1]
        reqs = []
        for spec, key, w, p, ty in specs:
            for kind, v in values_for(ty):
                reqs.append((spec, key, w, p, ty, kind, v))
        res = C.run_worker([req_line(spec, w, p, ty, kind, v) for spec, key, w, p, ty, kind, v in reqs])
        for (spec, key, w, p, ty, kind, v), obs in zip(reqs, res):
            out, sig, ref = judge_spec(spec, key, w, p, ty, kind, v, obs)
            r.evaluations += 1
            r.outcomes['spec:' + out] += 1
            if out == 'equal':
                r.nontrivial += 1
            if sig:
                r.fails.append(C.Fail(PROP, sig, 'spec', {'spec': spec, 'key': key, 'w': w, 'p': p, 'ty': ty, 'kind': kind,
                                                          'value': v.hex() if isinstance(v, bytes) else (fbits(v) if isinstance(v, float) else v)},
                                      obs, [str(x) for x in ref]))
        if reqs:
            q = reqs[len(reqs) // 2]
            r.samples.append({'spec': q[0], 'value': repr(q[6]), 'python': str(py_spec(*q))})
        r.by_bound['spec-evaluations'] += len(reqs)
    r.states = r.transitions = r.validated = r.evaluations
    return r


def run(tier, seed):
    t0 = time.time()
    n = 5 if tier == 'quick' else 7
    jobs = [('tmpl', n, s) for s in X.prefix_shards(T_SIGMA, n)]
    jobs.append(('bigqty',))
    jobs += [('spec', ch) for ch in X.chunks(spec_product(tier), 3000)]
    total = C.Result()
    for r in C.pmap(run_job, jobs):
        total.merge(r)
    rule = ('(A) every string of length<=%d over %r as text and as bytes template, formatted end to end with the value 5 bound to every specifier, '
            "'*' and key; (B) specifier product key%r x flag sequences(len<=%d) x width%r x precision%r x length%r x every ASCII letter and '%%' x "
            'per-type values (ints %r, floats, strings, characters, byte strings); real CFormatString/CFormatBytes/CFormatSpec vs the percent operator; '
            'non-trivial = template containing a percent sign / specifier evaluation where both sides produced the same text'
            % (n, ''.join(T_SIGMA), KEYS, 1 if tier == 'quick' else 2, WIDTHS, PRECS, LENMODS[tier], INTS))
    return C.finish(PROP, tier, seed, t0, total, rule,
                    ['CPython 3.11 % operator on str and bytes defines the reference',
                     'the harness plays the interpreter: binds * widths/precisions and mapping keys, converts ints for float conversions, applies repr/ascii for %r/%a'],
                    C.py_version())


def replay(path):
    case = json.load(open(path))['case']
    inp = case['input']
    outs = []
    for _ in range(2):
        if case['op'] == 'template':
            obs = C.run_worker(['cfmt_apply\t%s\t%s\t5' % ('y' if inp['bytes'] else 's', C.hx(inp['template']))])[0]
            out, sig, ref = judge_template(inp['template'], inp['bytes'], obs)
        else:
            v = inp['value']
            if inp['kind'] == 'y':
                v = bytes.fromhex(v)
            elif inp['kind'] == 'f':
                v = struct.unpack('<d', struct.pack('<Q', int(v, 16)))[0]
            obs = C.run_worker([req_line(inp['spec'], inp['w'], inp['p'], inp['ty'], inp['kind'], v)])[0]
            out, sig, ref = judge_spec(inp['spec'], inp['key'], inp['w'], inp['p'], inp['ty'], inp['kind'], v, obs)
        outs.append((obs, out, sig, ref))
    if json.dumps(outs[0][0], sort_keys=True) != json.dumps(outs[1][0], sort_keys=True):
        raise C.Machinery('replay is not deterministic')
    print('replay %s: rust=%s python=%s -> %s' % (json.dumps(inp, ensure_ascii=False), json.dumps(outs[0][0], ensure_ascii=False), outs[0][3], outs[0][1]))
    if outs[0][2]:
        print('VIOLATION property=%s replay=%s' % (PROP, path))
        return 1
    return 0
