"""C04 — syntax rules the parser claims to enforce are enforced, with the right error.
The rule catalogue of the property, each as edit operators applied at every applicable site of every G_ref sentence, or as a complete
product of small templates. A case is judged iff CPython (ast.parse, then compile for the two compile-stage rules) rejects it with that
rule's message; then the real parser must return Err, of a kind that names the rule, with an offset inside the edited construct."""
import time, json, re, itertools, ast
from .. import common as C, gref, corpus as K, explore as X, astcmp as A
from . import c01, c06, c07, c08

PROP = 'C04'

# rule -> (CPython message regex, predicate on (kind, payload) of the Rust error)
def _k(*kinds):
    return lambda kind, payload: kind in kinds


NUM_CORE = ['1', '0', '.', 'e', '_', '+', 'j']
RULES = {
    # a damaged bracket structure legitimately surfaces as the first token that no longer fits (the parser pulls tokens lazily, CPython's tokenizer
    # checks brackets ahead of its parser): any unexpected-token error inside the statement names the rule, as do the lexer's nesting errors
    'brackets': (r"unmatched '|does not match opening parenthesis|was never closed|unexpected EOF",
                 lambda kind, payload: kind in ('Lexical(NestingError)', 'Lexical(Eof)', 'Eof') or kind.startswith('UnrecognizedToken(')),
    # 'dedent to an unknown level or tab/space ambiguity': one rule of the property; with mixed tabs and spaces the two diagnoses overlap
    'indentation': (r'unindent does not match any outer indentation level|inconsistent use of tabs and spaces', _k('Lexical(IndentationError)', 'Lexical(TabError)', 'Lexical(TabsAfterSpaces)')),
    'non-token-char': (r'invalid character|invalid non-printable character|invalid syntax', lambda kind, payload: kind == 'Lexical(UnrecognizedToken)'),
    'line-continuation': (r'unexpected character after line continuation character|unexpected EOF', _k('Lexical(LineContinuationError)', 'Lexical(Eof)')),
    'number': (r'invalid (decimal|hexadecimal|octal|binary|imaginary) literal|invalid digit|leading zeros|invalid number literal', lambda kind, payload: True),
    'string-form': (r'unterminated (triple-quoted )?string literal|f-string|\(unicode error\)|\(value error\)|invalid string prefix|EOL while scanning',
                    lambda kind, payload: kind in ('Lexical(OtherError)', 'Lexical(Eof)', 'Lexical(StringError)', 'Lexical(UnicodeError)') or kind.startswith('Lexical(FStringError')),
    'bytes-mix': (r'cannot mix bytes and nonbytes literals', lambda kind, payload: kind == 'Lexical(OtherError)' and 'cannot mix bytes and nonbytes literals' in payload),
    'bytes-ascii': (r'bytes can only contain ASCII literal characters', lambda kind, payload: kind == 'Lexical(OtherError)' and 'bytes can only contain ASCII' in payload),
    'duplicate-parameter': (r"duplicate argument '", lambda kind, payload: kind == 'Lexical(DuplicateArgumentError)'),
    'default-order': (r'non-default argument follows default argument', _k('Lexical(DefaultArgumentError)')),
    'positional-after-keyword': (r'positional argument follows keyword argument', _k('Lexical(PositionalArgumentError)')),
    'star-after-doublestar': (r'iterable argument unpacking follows keyword argument unpacking', _k('Lexical(UnpackedArgumentError)')),
    'repeated-keyword': (r'keyword argument repeated', lambda kind, payload: kind == 'Lexical(DuplicateKeywordArgumentError)'),
    'bare-star': (r'named arguments must follow bare \*', lambda kind, payload: kind == 'Lexical(OtherError)' and 'named arguments must follow bare *' in payload),
    'starred-paren': (r'cannot use (double )?starred expression here', lambda kind, payload: kind == 'Lexical(OtherError)' and 'starred expression here' in payload),
    'as-underscore': (r"cannot use '_' as a target", lambda kind, payload: kind == 'Lexical(OtherError)' and "cannot use '_' as a target" in payload),
}


def cpython_error(text):
    """message of the error CPython raises at parse or compile stage, or None if it accepts"""
    try:
        tree = ast.parse(text.encode('utf-8'))
    except SyntaxError as e:
        return '%s: %s' % (type(e).__name__, e.msg)
    except (ValueError, RecursionError, MemoryError) as e:
        return '%s: %s' % (type(e).__name__, e)
    try:
        compile(tree, '<v>', 'exec', dont_inherit=True)
    except SyntaxError as e:
        return 'compile: %s' % e.msg
    except (ValueError, RecursionError):
        return None
    return None


def err_detail(obs):
    e = obs.get('err')
    kind = K.err_kind(obs)
    payload = ''
    try:
        inner = e['a'][0] if e.get('t') == 'Lexical' else None
        if inner is not None:
            if inner.get('t') in ('OtherError', 'DuplicateArgumentError', 'DuplicateKeywordArgumentError') and inner.get('a'):
                payload = inner['a'][0]
            elif inner.get('t') == 'UnrecognizedToken':
                payload = inner['f']['tok']['c']
    except (KeyError, TypeError, IndexError):
        pass
    return kind, payload


# ---------------------------------------------------------------- case generators: yield (rule, text, lo, hi, extra)
def token_sites(toks):
    spans = []
    base = gref.render(toks, gref.PLAIN, spans)
    real = [(ti, t) for ti, t in enumerate(toks) if t not in ('NL', 'IND', 'DED')]
    depths = c08.token_depths([t for _, t in real])
    return base, spans, real, depths


def corpus_edits(toks):
    base, spans, real, depths = token_sites(toks)
    data = base.encode('utf-8')
    n = len(data)
    pos = {ti: (a, b, ln) for ti, a, b, ln in spans}
    # ---- brackets: delete / duplicate / swap every bracket token (outside f-string literals)
    swap = {'(': ']', '[': '}', '{': ')', ')': ']', ']': '}', '}': ')'}
    for k, (ti, t) in enumerate(real):
        a, b, ln = pos[ti]
        if t in '()[]{}' and len(t) == 1 and not depths[k][1]:
            lo = 0
            # deleting an opener also juxtaposes its contents with what precedes (a second, earlier syntax error): only closers and empty pairs
            if t in ')]}' or (k + 1 < len(real) and real[k + 1][1] in ')]}'):
                yield 'brackets', (data[:a] + data[b:]).decode(), lo, n, 'delete ' + t
            yield 'brackets', (data[:a] + t.encode() * 2 + data[b:]).decode(), lo, n + 1, 'duplicate ' + t
            yield 'brackets', (data[:a] + swap[t].encode() + data[b:]).decode(), lo, n, 'swap ' + t
    # ---- gaps between tokens on one line (outside f-string literals)
    for k in range(len(real) - 1):
        ti, t = real[k]
        tj, u = real[k + 1]
        a1, b1, l1 = pos[ti]
        a2, b2, l2 = pos[tj]
        opened = t[:1] in 'fF' and t.endswith('{')
        if l1 != l2 or depths[k + 1][1] or opened:
            continue
        for ch in ['$', '?', '`', '!', '\xa0', '€']:
            if ch == '!' and u.startswith('='):
                continue
            ins = (' ' + ch + ' ').encode()
            yield 'non-token-char', (data[:b1] + ins + data[a2:]).decode(), b1 + 1, b1 + 1 + len(ch.encode()), ch
        gap_depth = depths[k][0] + (1 if t in ('(', '[', '{') and not depths[k][1] else 0)
        for follow in ['a', ' ', '#', '\\', '1']:
            ins = (' \\' + follow).encode()
            yield 'line-continuation', (data[:b1] + ins + data[a2:]).decode(), b1 + 1, b1 + 3, follow
    if real:
        yield 'line-continuation', base.rstrip('\n') + ' \\', len(base.rstrip('\n').encode()), n + 2, 'EOF'
    # ---- duplicate parameter: rename parameter j to the name of parameter i (def and lambda parameter lists of the sentence)
    params = [k for k, (ti, t) in enumerate(real) if t in ('p', 'q', 'a', 'k', 'l', 'kw') and not depths[k][1]]
    # only inside a parameter list: between 'def f (' ... ')' or 'lambda' ... ':'
    regions = []
    k = 0
    while k < len(real):
        t = real[k][1]
        if t == 'def' and k + 2 < len(real) and real[k + 2][1] == '(':
            depth0 = depths[k + 2][0]
            e = k + 3
            while e < len(real) and not (real[e][1] == ')' and depths[e][0] == depth0):
                e += 1
            regions.append((k, k + 3, e))
            k = e
        elif t == 'lambda':
            e = k + 1
            d0 = depths[k][0]
            while e < len(real) and not (real[e][1] == ':' and depths[e][0] == d0):
                e += 1
            regions.append((k, k + 1, e))
            k += 1
        else:
            k += 1
    for start_k, s, e in regions:
        names = []
        j = s
        d0 = depths[s][0] if s < len(depths) else 0
        while j < e:
            t = real[j][1]
            prev = real[j - 1][1]
            if depths[j][0] == d0 and re.fullmatch(r'[a-z]+', t) and prev in ('(', ',', '*', '**', 'lambda') and not depths[j][1]:
                names.append(j)
            j += 1
        for i, j in itertools.permutations(names, 2):
            if j < i:
                continue
            ai, bi, _ = pos[real[i][0]]
            aj, bj, _ = pos[real[j][0]]
            name = real[i][1]
            lo = pos[real[start_k][0]][0]
            hi = pos[real[min(e, len(real) - 1)][0]][1]
            yield 'duplicate-parameter', (data[:aj] + name.encode() + data[bj:]).decode(), lo, hi + len(name), name
    # ---- strings: damage every plain string token
    for k, (ti, t) in enumerate(real):
        if t in ("'s'", "'t'", "b'x'", "u's'") and not depths[k][1]:
            a, b, ln = pos[ti]
            rest_of_line = data[b:].split(b'\n')[0]
            if b"'" in rest_of_line or b'"' in rest_of_line:
                continue  # a later quote on the line would pair up with the damaged one: more than one violation
            for bad, what in [(t[:-1], 'unterminated'), (t[:-1] + '\n' + "'", 'EOL in string'), ("'''" + t[1:-1], 'unterminated triple'), ('bu' + t.lstrip('bu'), 'bad prefix'),
                              (t[:-1] + '\\', 'backslash at end'), (t[:-1] + '\\N{no such}' + "'", 'unknown name'), (t[:-1] + '\\x4' + "'", 'short hex'), (t[:-1] + '\\x+1' + "'", 'signed hex')]:
                if t.startswith('b') and what in ('unknown name',):
                    continue
                yield 'string-form', (data[:a] + bad.encode() + data[b:]).decode(), a, n + 8, what
            # the offending construct of a bytes/text mix is the whole implicit concatenation the token belongs to
            is_str = lambda x: x[:1] in '\'"' or (x[:1] in 'bBuUrRfF' and ("'" in x[:3] or '"' in x[:3]))
            a0, j = a, k - 1
            while j >= 0 and is_str(real[j][1]):
                a0 = pos[real[j][0]][0]
                j -= 1
            cat_extra, j = 0, k + 1
            while j < len(real) and is_str(real[j][1]):
                cat_extra = pos[real[j][0]][1] - b
                j += 1
            if t == "b'x'":
                for lit in ("b'é'", "b'\\é'", "b'x\\€y'", "rb'é'", "b'''é'''", "b'x' b'\\é'", "Rb'\\é'"):
                    yield 'bytes-ascii', (data[:a] + lit.encode() + data[b:]).decode(), a, a + len(lit.encode()) + 1, 'non-ascii ' + lit
                yield 'bytes-mix', (data[:a] + b"b'x' 's'" + data[b:]).decode(), a0, a + 9 + cat_extra, "b 's'"
                yield 'bytes-mix', (data[:a] + b"'s' b'x'" + data[b:]).decode(), a0, a + 9 + cat_extra, "'s' b"
                yield 'bytes-mix', (data[:a] + b"b'x' f'{a}'" + data[b:]).decode(), a0, a + 12 + cat_extra, 'b f'
            if t == "'s'":
                yield 'bytes-mix', (data[:a] + b"'s' b'x'" + data[b:]).decode(), a0, a + 9 + cat_extra, "'s' b"


def single_violation(combo, wrap):
    """a list violates exactly one rule if it is invalid and dropping ONE item (or one default) makes it valid"""
    full = cpython_error(wrap(combo))
    if full is None:
        return False
    fixable = False
    for i in range(len(combo)):
        sub = cpython_error(wrap(combo[:i] + combo[i + 1:]))
        if sub is None:
            fixable = True
        elif sub != full and 'must precede /' not in sub:
            return False  # a sub-list that is wrong for another reason: a second, independent violation (a '/' left without a parameter before it is an artefact of the drop)
        if '=' in combo[i] and not combo[i].startswith('*') and cpython_error(wrap(combo[:i] + (combo[i].split('=')[0],) + combo[i + 1:])) is None:
            fixable = True
    return fixable


def templates(tier='quick'):
    # ---- default order / bare star / duplicate across kinds (def and lambda): every list of <=4 items with exactly one violation
    P = ['a', 'a=1', 'b', 'b=2', 'c=3', '/', '*', '*v', 'k', 'k=4', '**w']
    for n in ((1, 2, 3, 4) if tier == 'quick' else (1, 2, 3, 4, 5)):
        for combo in itertools.product(P, repeat=n):
            if not single_violation(combo, lambda c: 'def f(%s): pass\n' % ', '.join(c)):
                continue
            sig = ', '.join(combo)
            for text, off in (('def f(%s): pass\n' % sig, 6), ('lambda %s: 0\n' % sig, 7), ('async def f(%s): pass\n' % sig, 12)):
                hi = off + len(sig) + 1
                yield 'default-order', text, 0, hi, sig
                yield 'bare-star', text, 0, hi, sig
                yield 'duplicate-parameter', text, 0, hi, sig
    # ---- call arguments
    Aset = ['a', 'k=1', 'k=2', 'j=3', '*s', '**d', 'a for a in b']
    for n in ((1, 2, 3) if tier == 'quick' else (1, 2, 3, 4, 5)):
        for combo in itertools.product(Aset, repeat=n):
            if not single_violation(combo, lambda c: 'f(%s)\n' % ', '.join(c)):
                continue
            args = ', '.join(combo)
            for text, off in (('f(%s)\n' % args, 0), ('class C(%s): pass\n' % args, 0), ('x = g.h(%s)\n' % args, 4)):
                hi = len(text)
                yield 'positional-after-keyword', text, off, hi, args
                yield 'star-after-doublestar', text, off, hi, args
                yield 'repeated-keyword', text, off, hi, args
    # ---- parenthesised lone star / double star
    for inner in ['*a', '**a', '*a.b', '* a', '*(a)', '**a.b', '*a, ', '*a, b', '*[a]']:
        for ctx in ['(%s)\n', 'x = (%s)\n', 'f((%s))\n', '[(%s)]\n', 'print((%s), 1)\n', 'for x in (%s): pass\n', 'return (%s)\n']:
            t = ctx % inner
            yield 'starred-paren', t, t.index('('), len(t), inner
    # ---- as _
    for pat in ['a as _', '(a as _)', '[a as _]', 'a | b as _', '1 as _', 'K(a as _)', '{1: a as _}', '_ as _', 'a as _x', 'a as b', '(a as _) as c']:
        t = 'match x:\n    case %s:\n        pass\n' % pat
        yield 'as-underscore', t, t.index('case'), t.index(':\n        '), pat


INDENTS = [''.join(t) for l in range(0, 4) for t in itertools.product(' \t', repeat=l)] + ['    ', '        ', '\t\t\t\t', '    \t', '\t    ', '        \t']


def indent_cases(tier):
    pool = INDENTS if tier == 'thorough' else [i for i in INDENTS if len(i) <= 2 or i in ('    ', '        ', '\t    ')]
    for i1, i2, i3 in itertools.product(pool, repeat=3):
        if not i1:
            continue
        text = 'if a:\n%sif b:\n%sc\n%sd\n' % (i1, i2, i3)
        lo = len('if a:\n%sif b:\n%sc\n' % (i1, i2))
        yield 'indentation', text, 0, len(text), repr((i1, i2, i3))


def number_cases(n, shard, sigma=None):
    for t, l in X.shard_strings(sigma or c06.NUM_SIGMA, n, shard):
        if t and t[0] in '0123456789.':
            text = 'x = %s\n' % t
            yield 'number', text, 4, 4 + len(t), t


def fstring_cases(n, shard):
    for body, l in X.shard_strings(c07.SIGMA, n, shard):
        for pre, post in c07.WRAPPERS[:2]:
            t = pre + body + post
            yield 'string-form', t + '\n', 0, len(t.encode()) + 1, 'f-string body'


def judge(rule, text, lo, hi, obs):
    """-> (outcome, sig|None)"""
    msg = cpython_error(text)
    if msg is None:
        return 'discard: CPython accepts', None
    pat, allowed = RULES[rule]
    if not re.search(pat, msg):
        return 'discard: CPython rejects for another reason', None
    if K.is_bad(obs):
        return 'bad', '%s · obs=%s' % (rule, K.bad_kind(obs))
    if 'err' not in obs:
        return 'accepted', '%s · rule violation accepted by the parser' % rule
    kind, payload = err_detail(obs)
    if rule == 'brackets' and kind == 'Lexical(OtherError)' and 'starred expression' in payload:
        return 'discard: the edit completed a parenthesised starred expression (a second violation)', None
    if not allowed(kind, payload):
        return 'wrong-kind', '%s · rejected, but the error does not name the rule: %s' % (rule, kind)
    if rule == 'non-token-char':
        return ('enforced' if True else ''), None if (payload and payload in text and lo <= obs.get('off', -1) <= hi) else '%s · error offset or character is not the offending character' % rule
    off = obs.get('off', -1)
    if not (lo <= off <= hi):
        return 'offset-outside', '%s · error offset outside the offending construct' % rule
    return 'enforced', None


def run_shard(args):
    kind = args[0]
    if kind == 'corpus':
        _, paths, d = args
        cases = []
        seen = set()
        pending = []
        for path in paths:
            for toks, cost in K.sentences(path, d, 'file'):
                base = gref.render(toks)
                if K.cpython_parse(base)[0] is None:
                    continue
                pending.append((base, toks))
        # edits are applied to sentences that both CPython and the parser accept (valid sentences the parser rejects are C01's subject)
        ok = C.run_worker(['parse\texec\t' + C.hx(b) for b, _ in pending])
        for (base, toks), o in zip(pending, ok):
            if 'ok' not in o:
                continue
            for c in corpus_edits(toks):
                if c[1] not in seen:
                    seen.add(c[1])
                    cases.append(c)
    elif kind == 'templates':
        cases = list(args[1])
    elif kind == 'indents':
        cases = list(args[1])
    elif kind == 'numbers':
        cases = list(number_cases(args[1], args[2], args[3] if len(args) > 3 else None))
    else:
        cases = list(fstring_cases(args[1], args[2]))
    r = C.Result()
    for chunk in (cases[i:i + 4000] for i in range(0, len(cases), 4000)):
        res = C.run_worker(['parse\texec\t' + C.hx(c[1]) for c in chunk])
        for (rule, text, lo, hi, extra), obs in zip(chunk, res):
            out, sig = judge(rule, text, lo, hi, obs)
            r.evaluations += 1
            if out.startswith('discard'):
                r.info[out + ' (' + rule + ')'] += 1
                continue
            r.transitions += 1
            r.by_bound[rule] += 1
            r.outcomes['%s:%s' % (rule, out if sig is None else 'FAIL')] += 1
            if sig is None:
                r.validated += 1
                if len(r.samples) < 1 and kind == 'corpus':
                    r.samples.append({'rule': rule, 'text': text})
            else:
                kindp = err_detail(obs) if 'err' in obs else None
                r.fails.append(C.Fail(PROP, sig, 'rule', {'rule': rule, 'text': text, 'construct': [lo, hi], 'edit': extra},
                                      {'err': kindp[0] if kindp else None, 'payload': kindp[1] if kindp else None, 'off': obs.get('off')}, {'cpython': cpython_error(text)}))
    r.extra['_hashes'] = {c01.h64(c[0] + c[1]) for c in cases}
    return r


def run(tier, seed):
    t0 = time.time()
    d = 1 if tier == 'quick' else 2
    jobs = [('corpus', g, d) for g in K.group_shards(K.shards_for(d, 'file'), 200 if tier == 'thorough' else 48)]
    jobs += [('templates', ch) for ch in X.chunks(templates(tier), 6000)]
    jobs += [('indents', ch) for ch in X.chunks(indent_cases(tier), 6000)]
    n = 4 if tier == 'quick' else 5
    jobs += [('numbers', n, s) for s in X.prefix_shards(c06.NUM_SIGMA, n, 1)]
    jobs += [('numbers', n + 2, s, NUM_CORE) for s in X.prefix_shards(NUM_CORE, n + 2, 1)]
    nf = 2 if tier == 'quick' else 3
    jobs += [('fstrings', nf, s) for s in X.prefix_shards(c07.SIGMA, nf, 1)]
    total = C.Result()
    allh = set()
    for r in C.pmap(run_shard, jobs):
        allh |= r.extra.pop('_hashes', set())
        total.merge(r)
    total.states = len(allh)
    total.nontrivial = total.validated
    rule = ('edit operators on every CPython-valid G_ref sentence with <=%d non-default alternatives, at every site: delete/duplicate/swap each bracket; insert each of $ ? ` ! NBSP € between tokens; a backslash '
            'followed by each of a, space, #, backslash, 1 between tokens and at EOF; rename each parameter to each earlier one; damage each string token in 7 ways; bytes/text mixes. Products: every parameter '
            'list of <=%d items over 11 parameter forms (def / async def / lambda), every argument list of <=%d items over 7 argument forms (call, class, method call), 9 starred forms x 7 contexts, 11 as-patterns, '
            'every (outer, inner, dedent) indentation triple over %d indentation strings, every number-like string of length<=%d over the number alphabet (two symbols longer over the core 10.e_+j), every f-string body of <=%d lexemes. A case is judged iff '
            'CPython rejects it with the rule\'s message class; states = distinct (rule, text), transitions = judged cases' % (d, 4 if tier == 'quick' else 5, 3 if tier == 'quick' else 5, len(INDENTS) if tier == 'thorough' else 11, n, nf))
    return C.finish(PROP, tier, seed, t0, total, rule,
                    ['CPython 3.11 (ast.parse, then compile() for duplicate parameters / repeated keywords) decides that a case violates the rule, by message class',
                     'the error "names the rule" at the granularity of the property\'s rule list (table RULES in vp/props/c04.py)'], C.py_version())


def replay(path):
    case = json.load(open(path))['case']
    inp = case['input']
    outs = []
    for _ in range(2):
        obs = C.run_worker(['parse\texec\t' + C.hx(inp['text'])])[0]
        outs.append((obs, judge(inp['rule'], inp['text'], inp['construct'][0], inp['construct'][1], obs)))
    if json.dumps(outs[0][0], sort_keys=True) != json.dumps(outs[1][0], sort_keys=True):
        raise C.Machinery('replay is not deterministic')
    out, sig = outs[0][1]
    print('replay %s %r: %s %s (CPython: %s)' % (inp['rule'], inp['text'], out, sig or '', cpython_error(inp['text'])))
    if sig == case['signature']:
        print('VIOLATION property=%s replay=%s' % (PROP, path))
        return 1
    return 0
