"""C03 — lexing and parsing are total: never panic, hang or misplace an error.
(1) Rust engine: every string over a 26-character alphabet up to length n, three modes, four start offsets (0, 1, 2^31, 2^32-2-len);
(2) every sequence of <=2/3 lexemes; (3) every single-character deletion / duplication / adjacent transposition / replacement by a 2-byte character / insertion of a 3-byte character of every corpus sentence;
(4) scaling families k = 1..4096: no panic / abort up to k = 1024 on an 8 MiB stack, step count (hook H2) at most cubic."""
import time, json, subprocess, math
from .. import common as C, gref, corpus as K, explore as X, relcheck as R
from . import c01, c05, c06

PROP = 'C03'
FAMILIES = ["paren-nest", "bracket-nest", "brace-nest", "unclosed-paren", "close-only", "not-chain", "minus-chain", "power-chain", "attr-chain", "call-chain", "subscript-chain",
            "binop-chain", "compare-chain", "bool-chain", "ifexp-chain", "lambda-chain", "await-chain", "tuple-long", "list-long", "dict-long", "call-args", "kwargs", "params",
            "string-concat", "fstring-fields", "fstring-nested", "blocks-nested", "dedents-at-once", "elif-chain", "statements", "semicolons", "match-soft", "match-lines", "case-lines",
            "continuation", "blank-lines", "comment-lines", "long-name", "long-int", "long-string", "backslashes", "quotes", "decorators", "with-items", "import-dots", "star-targets",
            "walrus-nest", "dict-nest", "pattern-nest"]
SIZES = [1, 2, 4, 8, 16, 32, 64, 128, 256, 512, 1024, 2048, 4096]
REALISTIC = 1024


LAYOUT_LEX = R.LAYOUT_LEX


def mutations(text):
    seen = set()
    for i in range(len(text)):
        for m in (text[:i] + text[i + 1:], text[:i] + text[i] + text[i:], (text[:i] + text[i + 1] + text[i] + text[i + 2:]) if i + 1 < len(text) else None,
                  text[:i] + 'é' + text[i + 1:], text[:i] + '€' + text[i:]):
            if m is not None and m != text and m not in seen:
                seen.add(m)
                yield m


def run_family(args):
    _, fam = args
    r = C.Result()
    rows = []
    for k in SIZES:
        cmd = [C.worker_path('default'), 'engine', 'c03fam', 'family=' + fam, 'k=%d' % k]
        try:
            p = subprocess.run(cmd, stdout=subprocess.PIPE, stderr=subprocess.PIPE, timeout=120)
            out = p.stdout.decode().strip()
            row = json.loads(out) if p.returncode == 0 and out else {'family': fam, 'k': k, 'outcome': 'ABORT rc=%s %s' % (p.returncode, p.stderr.decode()[-120:].replace('\n', ' '))}
        except subprocess.TimeoutExpired:
            row = {'family': fam, 'k': k, 'outcome': 'HANG (>120 s)'}
        rows.append(row)
        r.evaluations += 1
        r.transitions += row.get('steps', 0)
        oc = row['outcome']
        bad = oc.startswith('PANIC') or oc.startswith('ABORT') or oc.startswith('HANG') or oc == 'thread died'
        if bad and k <= REALISTIC:
            r.fails.append(C.Fail(PROP, 'scaling family · %s at realistic size' % oc.split(' ')[0].lower(), 'family', {'family': fam, 'k': k}, {'outcome': oc[:200]}, 'Ok or Err'))
        if bad:
            break
    # growth: steps(2k) <= 9 * steps(k) for k >= 64  (at most cubic)
    good = [x for x in rows if 'steps' in x]
    deg = None
    for a, b in zip(good, good[1:]):
        if a['k'] >= 64 and b['k'] == 2 * a['k'] and a['steps'] > 0:
            if b['steps'] > 9 * a['steps']:
                r.fails.append(C.Fail(PROP, 'scaling family · step count grows faster than cubic', 'family', {'family': fam, 'k': b['k']},
                                      {'steps(k)': a['steps'], 'steps(2k)': b['steps']}, 'steps(2k) <= 9*steps(k)'))
            deg = math.log2(b['steps'] / a['steps'])
    r.info['families with fitted degree > 1.5'] += 1 if (deg or 0) > 1.5 else 0
    r.outcomes['family:%s' % ('deg~%.1f' % deg if deg is not None else 'n/a')] += 1
    r.extra['family_table'] = {fam: {'degree': round(deg, 2) if deg is not None else None, 'max_k_ok': max([x['k'] for x in good] or [0]),
                                     'last': rows[-1]['outcome'][:60], 'steps_at_1024': next((x['steps'] for x in good if x['k'] == 1024), None)}}
    r.validated = len(good)
    return r


def run_shard(args):
    kind = args[0]
    if kind == 'engine':
        d = C.run_engine('c03', args[1], timeout=7200)
        r = C.engine_to_result(PROP, d, 'c03')
        r.extra['_engine_states'] = d['evaluations']
        return r
    if kind == 'family':
        return run_family(args)
    if kind == 'literals':
        texts = [(t, 'literal forms: ' + g) for g, t in args[1]]
    elif kind == 'dense':
        allt = R.dense_family_texts(args[1])
        texts = allt[args[2]::16]
    elif kind == 'layoutlex':
        _, n, shard = args
        texts = [(t, 'layout lexemes n=%d' % l) for t, l in X.shard_strings(LAYOUT_LEX, n, shard)]
    elif kind == 'lexemes':
        _, n, shard = args
        texts = [(t, 'lexemes n=%d' % l) for t, l in X.shard_strings(c05.LEXEMES, n, shard)]
    else:
        _, paths, d = args
        texts = []
        for t, c, _ in R.corpus_texts(paths, d, 'file'):
            for m in mutations(t):
                texts.append((m, 'mutations of cost=%d sentences' % c))
    r = R.run_texts(PROP, 'c03', texts)
    r.extra['_hashes'] = {c01.h64(t) for t, _ in texts}
    if texts:
        r.samples.append(texts[len(texts) // 2][0])
    return r


def run(tier, seed):
    t0 = time.time()
    jobs = [('engine', {'n': 4 if tier == 'quick' else 5}), ('engine', {'n': 5 if tier == 'quick' else 6, 'sigma': 14})]
    jobs += [('family', f) for f in FAMILIES]
    nl = 2 if tier == 'quick' else 3
    jobs += [('lexemes', nl, s) for s in X.prefix_shards(c05.LEXEMES, nl, 1)]
    ln = 4 if tier == 'quick' else 6
    jobs += [('layoutlex', ln, s) for s in X.prefix_shards(LAYOUT_LEX, ln, 1 if tier == 'quick' else 2)]
    jobs += [('dense', 100 if tier == 'quick' else 200, k) for k in range(16)]
    lits = [x for gen in (c06.esc_cases, c06.prefix_cases, c06.newline_cases, c06.quote_run_cases, c06.concat_cases, c06.big_numbers, c06.float_cases) for x in gen(tier) if tier != 'quick' or x[0] != 'escape-u']
    if tier != 'quick':
        lits += list(c06.name_cases(tier))
    jobs += [('literals', ch) for ch in X.chunks(iter(lits), 4000)]
    d = 1 if tier == 'quick' else 2
    jobs += [('corpus', g, d) for g in K.group_shards(K.shards_for(d, 'file'), 64)]
    total = C.Result()
    allh = set()
    eng = 0
    table = {}
    for r in C.pmap(run_shard, jobs):
        allh |= r.extra.pop('_hashes', set())
        eng += r.extra.pop('_engine_states', 0)
        table.update(r.extra.pop('family_table', {}))
        total.merge(r)
    total.states = len(allh) + eng + len(FAMILIES) * len(SIZES)
    total.nontrivial = total.states
    total.extra['family_table'] = table
    rule = ('(1) every string of length<=%d over the 26-character alphabet (incl. NUL-free control, CR/LF/FF, BOM, 2/3/4-byte characters) and of length<=%d over its first 14 characters, x 3 modes x '
            'start offsets {0, 1, 2^31, 2^32-2-len}: no panic (overflow checks on), Err.offset in [start, start+len] on a character boundary, token stream finite up to its first error; (2) every '
            'size k = 1..100/200 of 48 one-parameter text families (names, digits in four bases, escapes, \\N{...} names, comments, blank-line runs, continuations, nesting, argument lists; plain and with a multi-byte character); every sequence of <=%d lexemes of the %d-lexeme set and of <=%d lexemes of the 16-lexeme layout set (indentation pieces, continuations, line breaks, comment, form feed, block opener, brackets, BOM); (3) every single-character deletion/duplication/adjacent transposition/replacement by U+00E9/insertion of U+20AC of every G_ref sentence with <=%d non-default alternatives; (4) every literal form of the C06 escape/prefix/newline/concatenation corpus (all octal escapes 0..0o777, all \\xHH, every \\c%s); (5) %d scaling '
            'families at k=1..4096 in sub-processes on an 8 MiB stack: no panic/abort/hang up to k=%d, steps(2k) <= 9*steps(k) for k>=64 (hook H2); states = distinct inputs, transitions = parser/lexer runs + steps'
            % (4 if tier == 'quick' else 5, 5 if tier == 'quick' else 6, nl, len(c05.LEXEMES), ln, d, ', all \\uXXXX, every \\N{name}' if tier != 'quick' else '', len(FAMILIES), REALISTIC))
    return C.finish(PROP, tier, seed, t0, total, rule,
                    ['release build with overflow-checks and debug-assertions on; panics are caught per case, aborts/hangs are observed per sub-process', 'step counter H2 (parser/src/verif.rs) for the growth claim; '
                     '"realistic nesting" = 1024 levels (CPython itself stops at 200 brackets / 100 indents)'])


def replay(path):
    case = json.load(open(path))['case']
    if case['op'] == 'family':
        r = run_family(('family', case['input']['family']))
        sigs = [f.sig for f in r.fails]
        print('replay family %s: %s' % (case['input']['family'], sigs or 'holds'))
        if case['signature'] in sigs:
            print('VIOLATION property=%s replay=%s' % (PROP, path))
            return 1
        return 0
    return R.replay_text(PROP, 'c03', path)
