"""C09 — start offsets only translate positions; all entry points agree.
Every G_ref sentence (valid or not) and every short character string, through every entry point at offsets
{0, 1, 7, 400, 2^31, 2^32-1-len}; the reference is the result of parse() at offset 0, shifted / projected in the harness."""
import time, json
from .. import common as C, gref, corpus as K, explore as X, relcheck as R
from . import c01

PROP = 'C09'


def run_shard(args):
    kind = args[0]
    if kind == 'corpus':
        # layouts: the BOM and leading comment/blank lines matter to a lexer started at a non-zero offset
        _, paths, d, start, layouts = args
        texts = [(t, 'corpus cost=%d%s' % (c, '' if ln == 'plain' else ' ' + ln)) for t, c, ln in R.corpus_texts(paths, d, start, layouts)]
    elif kind == 'chars':
        _, n, shard = args
        texts = [(t, 'chars len=%d' % l) for t, l in X.shard_strings(R.CHAR_SIGMA, n, shard)]
    elif kind == 'twodefects':
        _, paths, d = args
        texts = []
        seen = set()
        for path in paths:
            for toks, cost in K.sentences(path, d, 'file'):
                real = [i for i, t in enumerate(toks) if t not in ('NL', 'IND', 'DED')]
                for i in real[:12]:
                    for tail in (' $', ' "', ' 0x', ' \\a'):
                        t = gref.render(toks[:i] + toks[i + 1:]).rstrip('\n') + tail + '\n'
                        if t not in seen:
                            seen.add(t)
                            texts.append((t, 'token deleted + lexical error appended, cost=%d' % cost))
    elif kind == 'layout':
        _, n, shard = args
        texts = [(t, 'layout lexemes n=%d' % l) for t, l in X.shard_strings(R.LAYOUT_LEX, n, shard)]
    else:
        res = C.run_worker(['c09mode'])
        r = C.Result()
        r.evaluations = 1
        r.transitions = 1111111
        r.outcomes['held' if 'ok' in res[0] else 'FAIL'] += 1
        if 'fail' in res[0]:
            rel, got, want = res[0]['fail'][0]
            r.fails.append(C.Fail(PROP, rel, 'c09mode', '', {'observed': got}, {'expected': want}))
        return r
    r = R.run_texts(PROP, 'c09', texts, extra_args='\tfull')
    r.extra['_hashes'] = {c01.h64(t) for t, _ in texts}
    if texts:
        r.samples.append(texts[len(texts) // 2][0])
    return r


def run(tier, seed):
    t0 = time.time()
    d = K.DEPTH[tier]
    jobs = []
    for start in ('file', 'exprfile'):
        for g in K.group_shards(K.shards_for(d, start), 400 if tier == 'thorough' else 64):
            jobs.append(('corpus', g, d, start, ('plain',)))
        # the BOM and comment/CRLF/tab layouts one level lower in the thorough tier (the plain layout carries the full bound)
        dl = d if tier == 'quick' else d - 1
        for g in K.group_shards(K.shards_for(dl, start), 64):
            jobs.append(('corpus', g, dl, start, ('bom', 'comments-crlf-tab') if start == 'file' else ('bom',)))
    n = 3 if tier == 'quick' else 4
    jobs += [('chars', n, s) for s in X.prefix_shards(R.CHAR_SIGMA, n, 1 if tier == 'quick' else 2)]
    jobs += [('twodefects', g, d - 1) for g in K.group_shards(K.shards_for(d - 1, 'file'), 64)]
    ll = 4 if tier == 'quick' else 5
    jobs += [('layout', ll, s) for s in X.prefix_shards(R.LAYOUT_LEX, ll, 1)]
    jobs.append(('mode',))
    total = C.Result()
    allh = set()
    for r in C.pmap(run_shard, jobs):
        allh |= r.extra.pop('_hashes', set())
        total.merge(r)
    total.states = len(allh)
    total.nontrivial = len(allh)
    rule = ('every G_ref sentence with at most %d non-default alternatives (accepted by the parser or not; plain layout at the full bound, BOM-prefixed and comment/CRLF/tab layouts at the quick bound) and every string of length<=%d over %r and of <=%d lexemes over the 16-lexeme layout alphabet, through parse / parse_starts_at / '
            'parse_tokens / lex / lex_starts_at, Parse::{parse, parse_starts_at, parse_without_path} for Mod*, Suite, Stmt, Expr, Identifier, Constant and all 55 generated node types, '
            'the deprecated helpers, in three modes at offsets {0, 1, 7, 400, 2^31, 2^32-2-len}; Mode::from_str on all strings of <=6 letters; states = distinct texts, '
            'transitions = relations checked' % (d, n, ''.join(R.CHAR_SIGMA), ll))
    return C.finish(PROP, tier, seed, t0, total, rule,
                    ['reference = parse(text, mode) at offset 0, shifted and projected by the harness (in Rust, on the Debug rendering)',
                     'a bare yield statement is an expression statement in module mode but not an expression-mode input (same in CPython)'])


def replay(path):
    return R.replay_text(PROP, 'c09', path, extra_args='\tfull')
