"""C02 — node ranges are the exact source extent of each construct.
E-DERIV over G_ref (CPython-valid sentences) x layouts (LF / CRLF / CR / BOM / tab indent / multi-byte identifiers), parsed by the
all-nodes-with-ranges build; every node of every tree is checked structurally (inside input, char boundaries, start<=end,
parent encloses children, siblings ordered and disjoint) and against CPython's positions converted to byte offsets."""
import time, json, hashlib, ast
from .. import common as C, gref, corpus as K, astcmp as A, explore as X
from . import c01

PROP = 'C02'
CONFIGS = ('all-nodes',)
LAYOUT_NAMES = ['plain', 'crlf', 'cr', 'bom', 'tab', 'multibyte', 'comments', 'spread-comments', 'nofinalnl']
# lists whose elements legitimately share one range in the reference as well (3.11 gives every piece of an f-string the whole literal)
SIBLING_EXEMPT = {'JoinedStr.values'}
# children that precede their parent's start
PARENT_EXEMPT = {'FunctionDef.decorator_list', 'AsyncFunctionDef.decorator_list', 'ClassDef.decorator_list'}


def line_starts(data):
    """byte offsets of line starts (CR, LF, CRLF each one break); a leading BOM is not part of line 1"""
    starts = [3 if data.startswith(b'\xef\xbb\xbf') else 0]
    i = 0
    n = len(data)
    while i < n:
        c = data[i]
        if c == 0x0a:
            starts.append(i + 1)
        elif c == 0x0d:
            if i + 1 < n and data[i + 1] == 0x0a:
                i += 1
            starts.append(i + 1)
        i += 1
    return starts


def structural(tree, data, text):
    """-> list of (clause, path, detail)"""
    out = []
    n = len(data)

    def boundary(o):
        return o == n or o == 0 or (data[o] & 0xC0) != 0x80

    def rec(node, path, parent_rng, exempt):
        name, d = node
        rng = d.get('@')
        if rng is not None:
            a, b = rng
            if not (0 <= a <= b <= n):
                out.append(('range outside the input or start>end', path + '.' + name, '%r len=%d' % (rng, n)))
            elif not (boundary(a) and boundary(b)):
                out.append(('range not on character boundaries', path + '.' + name, repr(rng)))
            if parent_rng is not None and not exempt and not (parent_rng[0] <= a and b <= parent_rng[1]):
                out.append(('parent does not enclose child', path + '.' + name, 'child %r parent %r' % (rng, parent_rng)))
        here = rng if rng is not None else parent_rng
        for k, v in d.items():
            if k == '@':
                continue
            key = name + '.' + k
            ex = key in PARENT_EXEMPT
            if isinstance(v, list):
                prev = None
                for i, x in enumerate(v):
                    if isinstance(x, tuple) and len(x) == 2 and isinstance(x[1], dict):
                        r2 = x[1].get('@')
                        if r2 is not None and key not in SIBLING_EXEMPT:
                            if prev is not None and r2[0] < prev[1]:
                                out.append(('siblings overlap or out of source order', path + '.' + key, '%r then %r' % (prev, r2)))
                            prev = r2
                        rec(x, path + '.' + key + '[%d]' % i, here, ex)
            elif isinstance(v, tuple) and len(v) == 2 and isinstance(v[1], dict):
                rec(v, path + '.' + key, here, ex)

    rec(tree, '', None, False)
    return out


def compare_ranges(got, ref, path='', skip_own=False):
    """parallel walk of two structurally equal trees; yields (path, got_range, ref_range) where the reference has a range and they differ.
    The pieces of an f-string (JoinedStr.values[i] and the pieces of a nested format spec) are not compared themselves: CPython 3.11 gives
    every piece the extent of the whole (possibly implicitly concatenated) literal, which is an artefact of its f-string compiler and not
    'that construct's text'; the expressions inside the fields are compared."""
    if isinstance(got, list) and isinstance(ref, list):
        for i, (x, y) in enumerate(zip(got, ref)):
            yield from compare_ranges(x, y, path + '[%d]' % i, skip_own)
        return
    if isinstance(got, tuple) and isinstance(ref, tuple) and len(got) == 2 and len(ref) == 2 and isinstance(got[1], dict) and isinstance(ref[1], dict):
        if got[0] != ref[0]:
            return
        rr = ref[1].get('@')
        if rr is not None and not skip_own and got[1].get('@') != rr:
            yield (path + '.' + got[0], got[1].get('@'), rr)
        for k, v in got[1].items():
            if k != '@' and k in ref[1]:
                piece = (got[0] == 'JoinedStr' and k == 'values') or (got[0] == 'FormattedValue' and k == 'format_spec')
                yield from compare_ranges(v, ref[1][k], path + '.' + got[0] + '.' + k, piece)


def judge(text, obs, want_ref=True):
    """-> (outcome, [Fail...])"""
    data = text.encode('utf-8')
    inp = {'mode': 'exec', 'text': text}
    if K.is_bad(obs):
        return 'bad', [C.Fail(PROP, 'parse · obs=%s' % K.bad_kind(obs), 'parse', inp, obs, 'no panic')]
    if 'err' in obs:
        return 'rs-reject', []
    got = A.rs(obs['ok'], with_ranges=True)
    fails = []
    seen = set()
    for clause, path, detail in structural(got, data, text):
        sig = 'structure · %s · %s' % (clause, A.path_suffix(path, 1) or path.split('.')[-1])
        if sig not in seen:
            seen.add(sig)
            fails.append(C.Fail(PROP, sig, 'parse', inp, {'path': path, 'detail': detail}, clause))
    tree, err = K.cpython_parse(text, 'exec')
    if tree is None:
        return ('struct-only' if not fails else 'struct-fail'), fails
    starts = line_starts(data)

    def pos(lineno, col):
        return starts[lineno - 1] + col

    ref = ('Module', {'body': A.PyDump(pos).node(tree.body), '@': None})
    got_m = c01.drop_empty_type_params(('Module', {'body': got[1]['body'], '@': None}))
    if A.erase(got_m) != A.erase(ref):
        return 'tree-differs(C01)', fails
    for path, g, r in compare_ranges(got_m, ref):
        kind = path.rsplit('.', 1)[-1]
        delta = ('start%+d end%+d' % (g[0] - r[0], g[1] - r[1])) if g is not None else 'missing'
        sig = 'extent · %s differs from the reference · %s · %s' % (kind, A.path_suffix(path[:path.rfind('.')], 1), delta)
        if sig not in seen:
            seen.add(sig)
            fails.append(C.Fail(PROP, sig, 'parse', inp, {'path': path, 'rust': list(g) if g else None, 'slice': data[g[0]:g[1]].decode('utf-8', 'replace') if g else None},
                                {'python': list(r), 'slice': data[r[0]:r[1]].decode('utf-8', 'replace')}))
    return ('equal' if not fails else 'range-fail'), fails


def run_lex_shard(args):
    """E-STR: the lexeme-concatenation and header-template texts of C01 (token adjacency, continuation lines, every newline form, tabs, form
    feeds, multi-byte comments) that CPython accepts, judged for ranges"""
    kind, n, shard = args
    r = C.Result()
    cases = []
    for text, tag in c01.lex_texts(kind, n, shard):
        r.transitions += 1
        if K.cpython_parse(text, 'exec')[0] is not None:
            cases.append((text, tag))
    hashes = set()
    for chunk in (cases[i:i + 3000] for i in range(0, len(cases), 3000)):
        res = C.run_worker(['parse\texec\t' + C.hx(t) for t, _ in chunk], cfg='all-nodes')
        for (text, tag), obs in zip(chunk, res):
            out, fails = judge(text, obs)
            r.evaluations += 1
            r.outcomes['%s:%s' % (kind, out)] += 1
            r.by_bound[tag] += 1
            if out in ('equal', 'range-fail'):
                hashes.add(c01.h64(text))
                r.validated += 1
            r.fails.extend(fails)
    r.extra['_hashes'] = hashes
    return r


def paren_variants(text):
    """redundant parentheses around every expression occurrence (positions from CPython's own tree of the text): a parenthesised expression is
    represented by the node of the expression itself, so every enclosing construct must still end after the closing parenthesis"""
    data = text.encode('utf-8')
    try:
        tree = ast.parse(data)
    except (SyntaxError, ValueError):
        return
    starts = line_starts(data)
    seen = set()
    for node in ast.walk(tree):
        if isinstance(node, ast.expr) and getattr(node, 'end_lineno', None) is not None:
            a = starts[node.lineno - 1] + node.col_offset
            b = starts[node.end_lineno - 1] + node.end_col_offset
            if (a, b) in seen:
                continue
            seen.add((a, b))
            yield (data[:a] + b'( ' + data[a:b] + b' )' + data[b:]).decode('utf-8')


def run_fstr_shard(args):
    """the implicit-concatenation product of string / f-string literals (escapes before fields, multi-line fields, nested specs)"""
    r = C.Result()
    texts = sorted({t for t in K.fstring_product(args[1]) if K.cpython_parse(t, 'exec')[0] is not None})
    hashes = set()
    for chunk in (texts[i:i + 3000] for i in range(0, len(texts), 3000)):
        res = C.run_worker(['parse\texec\t' + C.hx(t) for t in chunk], cfg='all-nodes')
        for text, obs in zip(chunk, res):
            out, fails = judge(text, obs)
            r.evaluations += 1
            r.transitions += 1
            r.outcomes['fstr:%s' % out] += 1
            r.by_bound['f-string product'] += 1
            if out in ('equal', 'range-fail'):
                hashes.add(c01.h64(text))
                r.validated += 1
            r.fails.extend(fails)
    r.extra['_hashes'] = hashes
    return r


def run_shard(args):
    if args[0] == 'fstr':
        return run_fstr_shard(args)
    if args[0] in ('lex', 'hdr', 'layout', 'dense'):
        return run_lex_shard(args)
    paths, d, tier, start = args
    r = C.Result()
    hashes = set()
    seen = set()
    cases = []
    for path in paths:
        for toks, cost in K.sentences(path, d, start):
            r.transitions += 1
            if K.cpython_parse(gref.render(toks), 'exec')[0] is None:
                continue
            for ln in LAYOUT_NAMES:
                text = gref.render(toks, gref.LAYOUTS[ln])
                if text in seen:
                    continue
                seen.add(text)
                cases.append((text, ln, cost))
            if cost < d:
                # one more deviation: a redundant pair of parentheses around one expression occurrence
                for text in paren_variants(gref.render(toks)):
                    if text not in seen and K.cpython_parse(text, 'exec')[0] is not None:
                        seen.add(text)
                        cases.append((text, 'parenthesised', cost + 1))
    for chunk in (cases[i:i + 3000] for i in range(0, len(cases), 3000)):
        res = C.run_worker(['parse\texec\t' + C.hx(t) for t, _, _ in chunk], cfg='all-nodes')
        for (text, ln, cost), obs in zip(chunk, res):
            out, fails = judge(text, obs)
            r.evaluations += 1
            r.outcomes['%s:%s' % (ln, out)] += 1
            r.by_bound['%s cost=%d' % (ln, cost)] += 1
            if out in ('equal', 'range-fail'):
                hashes.add(c01.h64(text))
                r.validated += 1
            r.fails.extend(fails)
            if out == 'equal' and len(r.samples) < 1 and cost == d and ln != 'plain':
                r.samples.append({'layout': ln, 'text': text})
    r.extra['_hashes'] = hashes
    return r


def run(tier, seed):
    t0 = time.time()
    d = K.DEPTH[tier]
    total = C.Result()
    allh = set()
    jobs = []
    shards = K.shards_for(d, 'file')
    for g in K.group_shards(shards, 400 if tier == 'thorough' else 96):
        jobs.append((g, d, tier, 'file'))
    jobs.append(('fstr', 2 if tier == 'quick' else 3))
    jobs += [('dense', 0 if tier == 'quick' else 1, k) for k in range(16)]
    nl, nh = c01.LEX_N[tier], c01.HDR_N[tier] - 1
    jobs += [('lex', nl, sh) for sh in X.prefix_shards(c01.LEX, nl, 1 if tier == 'quick' else 2)]
    jobs += [('hdr', nh, sh) for sh in X.prefix_shards(c01.HDR, nh, 1 if tier == 'quick' else 2)]
    from .. import relcheck
    jobs += [('layout', c01.LAYOUT_N[tier], sh) for sh in X.prefix_shards(relcheck.LAYOUT_LEX, c01.LAYOUT_N[tier], 1)]
    for r in C.pmap(run_shard, jobs):
        allh |= r.extra.pop('_hashes')
        total.merge(r)
    total.states = len(allh)
    total.nontrivial = len(allh)
    rule = ('E-DERIV over G_ref, every derivation with at most %d non-default alternatives that CPython accepts, rendered under the layouts %s (sentences below the bound also with a redundant pair of parentheses around each expression occurrence) and parsed by the '
            'all-nodes-with-ranges build; every node of every tree: structural clauses + range equality with CPython line/col converted to byte offsets (for the node kinds '
            'CPython positions); plus E-STR: every separator-free concatenation of <=%d lexemes of the %d-lexeme alphabet of C01 and every sequence of <=%d header tokens in the %d statement '
            'templates of C01, the implicit-concatenation product of the 17 string/f-string literals, and every concatenation of layout lexemes of C01 that CPython accepts; states = distinct_nontrivial = distinct texts whose tree equals the reference tree (so that ranges can be compared node by node)'
            % (d, LAYOUT_NAMES, nl, len(c01.LEX), nh, len(c01.HDR_TEMPLATES)))
    return C.finish(PROP, tier, seed, t0, total, rule,
                    ['CPython 3.11 lineno/col_offset (UTF-8 bytes within the line, universal newlines, BOM not part of line 1) define the reference extents',
                     'pieces of an f-string carry the range of the whole literal, as in the 3.11 reference'], C.py_version())


def replay(path):
    case = json.load(open(path))['case']
    inp = case['input']
    outs = []
    for _ in range(2):
        obs = C.run_worker(['parse\texec\t' + C.hx(inp['text'])], cfg='all-nodes')[0]
        outs.append((obs, judge(inp['text'], obs)))
    if json.dumps(outs[0][0], sort_keys=True) != json.dumps(outs[1][0], sort_keys=True):
        raise C.Machinery('replay is not deterministic')
    out, fails = outs[0][1]
    hit = [f for f in fails if f.sig == case['signature']]
    print('replay %r: %s %s' % (inp['text'], out, [f.sig for f in fails]))
    if hit:
        print('VIOLATION property=%s replay=%s' % (PROP, path))
        return 1
    return 0
