"""C14 — converting between the two parameter-list forms keeps every parameter.
Rust engine (harness/vworker/src/engines/c14.rs): complete product of signature shapes up to the bound (counts per kind,
every legal default assignment incl. keyword-only defaults before non-defaults, annotations per kind, def and lambda),
parsed by the real parser, converted with to_python_arguments / into_python_arguments / into_arguments and compared with a
reference built from the generator's own description of the signature."""
import time, json
from .. import common as C

PROP = 'C14'
BOUNDS = {'quick': dict(posonly=2, args=3, kwonly=3), 'thorough': dict(posonly=4, args=4, kwonly=6)}


def run(tier, seed):
    t0 = time.time()
    b = BOUNDS[tier]
    d = C.run_engine('c14', b)
    r = C.engine_to_result(PROP, d, 'engine')
    rule = ('every signature with <=%(posonly)d positional-only, <=%(args)d positional, optional *args / bare *, <=%(kwonly)d keyword-only, optional **kw; every subset of '
            'positional defaults (a trailing run is a valid signature and is converted; any other subset must be rejected by the parser, and whatever it lets through is converted too) and every subset of keyword-only defaults; annotations on/off per kind; as def and as lambda; states = signatures, transitions = '
            'conversions (to python form, into python form, back); non-trivial = has at least one parameter; outcomes = signature shapes' % b)
    return C.finish(PROP, tier, seed, t0, r, rule,
                    ['reference = the generator\'s own description of each signature (names, annotations, defaults per parameter)',
                     'default feature configuration (ArgWithDefault::from_arg is todo!() under all-nodes-with-ranges)'])


def replay(path):
    case = json.load(open(path))['case']
    hits = []
    for _ in range(2):
        d = C.run_engine('c14', BOUNDS['thorough'])
        hits.append([f for f in d['fails'] if f[0] == case['signature'] and f[1] == case['input']])
    if hits[0] != hits[1]:
        raise C.Machinery('replay is not deterministic')
    if hits[0]:
        print('replay: %s on %r -> %s' % (case['signature'], case['input'], hits[0][0][2]))
        print('VIOLATION property=%s replay=%s' % (PROP, path))
        return 1
    print('replay: holds')
    return 0
