"""C06 — string, bytes and numeric literals decode to their Python values.
E-PROD / E-STR over the escape space, prefix spellings, newline shapes, concatenations and numeric shapes; every literal is parsed in
expression mode by the real parser and its value compared with CPython's ast.parse(literal, mode='eval')."""
import time, json, itertools, unicodedata, math, struct, ast
from .. import common as C, explore as X, corpus as K, astcmp as A
from . import c01

PROP = 'C06'
KINDS = ['', 'u', 'b', 'r', 'rb', 'f', 'rf', 'Rb', 'bR', 'F', 'U', 'B', 'R', 'fR', 'Rf']
QUOTES = ["'", '"', "'''", '"""']
NONASCII = ['é', '\xa0', '\xff', 'Ā', ' ', '﻿', '�', '￿', '\U00010000', '\U0001f600', '\U0010ffff', '名']
NUM_SIGMA = ['0', '1', '7', '9', '_', '.', 'e', 'E', '+', '-', 'j', 'x', 'o', 'b', 'a', 'f']
LITERAL_ERRORS = ('invalid decimal literal', 'invalid hexadecimal literal', 'invalid octal literal', 'invalid binary literal', 'invalid digit', 'leading zeros',
                  'invalid imaginary literal', 'unterminated string', 'unterminated triple', 'bytes can only contain ASCII', '(unicode error)', '(value error)',
                  'cannot mix bytes and nonbytes', 'invalid string prefix', 'invalid number literal')


def reference(lit):
    """-> ('value', canonical) | ('reject', message, is_literal_error) | ('other',)"""
    try:
        tree = ast.parse(lit.encode('utf-8', 'surrogatepass') if False else lit.encode('utf-8'), mode='eval')
    except SyntaxError as e:
        msg = e.msg or ''
        return ('reject', msg, any(k in msg for k in LITERAL_ERRORS))
    except (ValueError, UnicodeEncodeError, MemoryError) as e:
        return ('reject', str(e), False)
    b = tree.body
    if isinstance(b, ast.Constant):
        return ('value', (A.py_const(b.value), b.kind))
    if isinstance(b, ast.JoinedStr):
        return ('fstring',)
    return ('other',)


def observed(obs):
    if K.is_bad(obs):
        return ('bad', K.bad_kind(obs))
    if 'err' in obs:
        return ('reject', K.err_kind(obs))
    t = A.rs(obs['ok'])
    body = t[1]['body']
    if body[0] == 'Constant':
        kind = body[1]['kind']
        return ('value', (body[1]['value'], kind[1] if kind else None))
    if body[0] == 'JoinedStr':
        return ('fstring',)
    return ('other',)


def judge(lit, obs, group):
    ref = reference(lit)
    got = observed(obs)
    if got[0] == 'bad':
        return 'bad', '%s · obs=%s' % (group, got[1]), ref, got
    if ref[0] == 'value':
        if got[0] == 'value':
            if got[1] == ref[1]:
                return 'equal', None, ref, got
            what = 'kind marker' if got[1][0] == ref[1][0] else 'value'
            return 'differ', '%s · ref=literal · obs=literal · %s differs' % (group, what), ref, got
        return 'over-reject', '%s · ref=literal · obs=%s' % (group, got[0] if got[0] != 'reject' else 'reject(%s)' % got[1]), ref, got
    if ref[0] == 'reject':
        if got[0] == 'reject':
            return 'both-reject', None, ref, got
        if ref[2]:
            return 'over-accept', '%s · ref=reject(literal error) · obs=%s' % (group, got[0]), ref, got
        return 'unjudged', None, ref, got
    if ref[0] == 'fstring':
        if got[0] in ('fstring',):
            return 'fstring(C07)', None, ref, got
        return 'differ', '%s · ref=f-string · obs=%s' % (group, got[0]), ref, got
    return 'not-a-literal', None, ref, got


# ---------------------------------------------------------------- generators
def esc_cases(tier):
    chars = [chr(c) for c in range(128)] + NONASCII
    for k in KINDS:
        for q in QUOTES:
            for c in chars:
                if c in '\r\n' and len(q) == 1 and False:
                    continue
                if 'f' in k.lower() and c in '{}':
                    continue
                if c == q[0] and False:
                    continue
                yield 'escape-char', '%s%s\\%s%s' % (k, q, c, q)
                yield 'escape-char', '%s%sx\\%sy%s' % (k, q, c, q)
    for k in ['', 'b', 'r', 'rb', 'f']:
        for h in range(256):
            yield 'escape-x', "%s'\\x%02x'" % (k, h)
            yield 'escape-x', "%s'\\x%02X'" % (k, h)
        for h in '0123456789abcdefABCDEFgG _+-':
            yield 'escape-x', "%s'\\x%s'" % (k, h)
            yield 'escape-x', "%s'\\x%sg'" % (k, h)
            yield 'escape-x', "%s'\\xg%s'" % (k, h)
        yield 'escape-x', "%s'\\x'" % k
    for k in ['', 'b', 'f']:
        for v in range(0o1000):
            for sp in {'%o' % v, '%02o' % v, '%03o' % v}:
                if len(sp) > 3:
                    continue
                for follow in ['', '0', '7', '8', 'a']:
                    yield 'escape-octal', "%s'\\%s%s'" % (k, sp, follow)
    for bad in ("'\\u+041'", "'\\u-041'", "'\\U+001F600'", "'\\U0001F60+'", "'\\u 041'", "b'\\x+f'", "'\\u004+'"):
        yield 'escape-u', bad
    for v in range(0x10000):
        yield 'escape-u', "'\\u%04x'" % v
    for v in list(range(0, 0x300)) + [0xd7ff, 0xd800, 0xdbff, 0xdc00, 0xdfff, 0xe000, 0xffff]:
        yield 'escape-u', "'\\u%04X'" % v
        yield 'escape-u', "b'\\u%04x'" % v
        yield 'escape-u', "'\\u%03x'" % (v & 0xfff)
        yield 'escape-u', "'\\u%03xg'" % (v & 0xfff)
    us = [0, 1, 0x7f, 0x80, 0xff, 0x100, 0xd7ff, 0xd800, 0xdfff, 0xe000, 0xffff, 0x10000, 0x1f600, 0x10ffff, 0x110000, 0x7fffffff, 0xffffffff]
    for p in range(17):
        us += [p * 0x10000, p * 0x10000 + 0xffff, p * 0x10000 + 0xfffe]
    for v in sorted(set(us)):
        yield 'escape-U', "'\\U%08x'" % v
        yield 'escape-U', "'\\U%08X'" % v
        yield 'escape-U', "'\\U%07x'" % (v & 0xfffffff)
        yield 'escape-U', "b'\\U%08x'" % v
    for k in ['', 'b', 'r', 'f', 'rf']:
        for nl in ['\n', '\r\n', '\r']:
            for q in QUOTES:
                yield 'line-join', '%s%sa\\%sb%s' % (k, q, nl, q)
                yield 'line-join', '%s%s\\%s%s' % (k, q, nl, q)
    for body in ["\\'", '\\"', "\\\\", "\\\\'", "a\\", "\\\\\\'"]:
        for k in ['r', 'rb', 'R', 'br', 'rf', '']:
            for q in ["'", '"']:
                yield 'raw-quote', '%s%s%s%s' % (k, q, body.replace("'", q) if q == '"' else body, q)


def name_cases(tier):
    step = 1 if tier == 'thorough' else 7
    n = 0
    for cp in range(0x110000):
        try:
            nm = unicodedata.name(chr(cp))
        except ValueError:
            continue
        n += 1
        if n % step:
            continue
        yield 'escape-N', "'\\N{%s}'" % nm
        if n % (step * 50) == 0:
            yield 'escape-N', "'\\N{%s}'" % nm.lower()
            yield 'escape-N', "b'\\N{%s}'" % nm
            yield 'escape-N', "f'\\N{%s}'" % nm
            yield 'escape-N', "r'\\N{%s}'" % nm
    for nm in ['BELL', 'ALERT', 'BACKSPACE', 'ESCAPE', 'NULL', 'DELETE', 'LATIN CAPITAL LETTER GHA', 'CHARACTER TABULATION', 'LINE FEED', 'FORM FEED', 'CARRIAGE RETURN', 'NBSP', 'SHY', 'LRM',
               'ZWJ', 'BOM', 'NEL', 'HTS', 'no such name', '', ' ', 'DASH', 'EM DASH', 'em dash', 'A' * 89, 'LATIN SMALL LETTER A' + ' ' * 3, 'KEYCAP NUMBER SIGN']:
        for lit in ("'\\N{%s}'", "'a\\N{%s}b'", "'''\\N{%s}'''", "f'\\N{%s}'"):
            yield 'escape-N', lit % nm
    for lit in ["'\\N'", "'\\N{'", "'\\N{}'", "'\\N{DASH'", "'\\NDASH}'", "'\\N {DASH}'", "b'\\N'", "'\\N{DASH}}'"]:
        yield 'escape-N', lit


def prefix_cases(tier):
    letters = 'rbufRBUF'
    for l in range(0, 4):
        for t in itertools.product(letters, repeat=l):
            for q in ["'", '"""']:
                yield 'prefix', '%s%sa%s' % (''.join(t), q, q)


def newline_cases(tier):
    n = 5 if tier == 'thorough' else 4
    for l in range(0, n + 1):
        for t in itertools.product(['a', '\n', '\r', '\\'], repeat=l):
            body = ''.join(t)
            for k in ['', 'b', 'r']:
                yield 'triple-quoted-newlines', "%s'''%s'''" % (k, body)


def quote_run_cases(tier):
    """triple-quoted bodies over {a, ', ", escaped quote, backslash-n, LF}: runs of 1-2 quotes of the delimiter's kind next to escape pairs and
    line breaks must not close the literal"""
    n = 5 if tier == 'quick' else 6
    sym = ['a', "'", '"', "\\'", '\\n', '\n']
    for l in range(1, n + 1):
        for t in itertools.product(sym, repeat=l):
            body = ''.join(t)
            for k in (['', 'b'] if tier == 'quick' else ['', 'b', 'r', 'f']):
                for q in ("'''", '"""'):
                    yield 'triple-quoted-quote-runs', '%s%s%s%s' % (k, q, body, q)


def concat_cases(tier):
    # the last five: variable-length (octal) escapes at the seam of two pieces must not combine across it
    pieces = ["'s'", "u'u'", "b'b'", "r'\\r'", "rb'\\d'", "'''t\n'''", '"q"', "U'V'", "'\\0'", "'1'", "'\\12'", "b'\\1'", "b'7'"]
    for k in (2, 3):
        for t in itertools.product(pieces, repeat=k):
            yield 'concatenation', ' '.join(t)
            if k == 2:
                yield 'concatenation', '(' + '\n'.join(t) + ')'


NUM_CORE = ['0', '1', '7', '_', '.', 'e', '+', 'j', 'x', 'b']


def number_strings(n, shard, sigma=None):
    for t, l in X.shard_strings(sigma or NUM_SIGMA, n, shard):
        if t:
            yield 'number-shape', t


def big_numbers(tier):
    ks = list(range(0, 131)) + list(range(130, 4097, 61))
    for k in ks:
        for d in (-1, 0, 1):
            v = 2 ** k + d
            if v < 0:
                continue
            yield 'integer', str(v)
            yield 'integer', hex(v)
            yield 'integer', oct(v)
            yield 'integer', bin(v)
            s = str(v)
            yield 'integer', '_'.join(s[i:i + 3] for i in range(0, len(s), 3))
            yield 'integer', hex(v).upper().replace('0X', '0X')
    for k in range(0, 401, 1 if tier == 'thorough' else 7):
        for d in (-1, 0, 1):
            v = 10 ** k + d
            if v >= 0:
                yield 'integer', str(v)
                yield 'integer', '0' * 3 + '0' if v == 0 else str(v) + 'j'
    for lit in ['0_0', '00', '0_7', '1__0', '1_', '_1', '0x_f', '0xf_', '0b_1', '0o_7', '0b2', '0o8', '0xg', '09', '0e0', '00e0', '09.5', '09j', '0_0j', '1_0.0_1e1_0', '1e+', '1e-', '.e1', '1.e1',
                '1._0', '1_.0', '1e1_', '1e_1', '0x1p3', '1j2', '1jj', '0X1F', '0O17', '0B11', '1E5', '1J', '.5J', '5.J']:
        yield 'number-edge', lit


def float_cases(tier):
    mant = range(1, 10000) if tier == 'thorough' else list(range(1, 100)) + list(range(100, 10000, 37))
    exps = range(-330, 311) if tier == 'thorough' else range(-330, 311, 5)
    for m in mant:
        for e in exps:
            yield 'float', '%de%d' % (m, e)
    # round-half-even: the exact decimal midpoint of adjacent doubles at every binade boundary, and its two last-digit neighbours
    from fractions import Fraction
    for k in range(-1074, 1024, 1 if tier == 'thorough' else 13):
        x = math.ldexp(1.0, k)
        b = struct.unpack('<Q', struct.pack('<d', x))[0]
        for nb in (b - 1, b + 1):
            if nb < 0:
                continue
            y = struct.unpack('<d', struct.pack('<Q', nb))[0]
            mid = (Fraction(x) + Fraction(y)) / 2
            # exact decimal expansion of mid (finite since denominators are powers of two)
            den = mid.denominator
            p = den.bit_length() - 1
            digits = mid.numerator * 5 ** p
            s = str(digits)
            lit = s + 'e-%d' % p if p else s
            yield 'float-midpoint', lit
            yield 'float-midpoint', str(digits + 1) + ('e-%d' % p if p else '')
            yield 'float-midpoint', str(digits - 1) + ('e-%d' % p if p else '')
            yield 'float-midpoint', lit + 'j'
    for lit in ['1e308', '1.7976931348623157e308', '1.7976931348623158e308', '1.7976931348623159e308', '1e309', '1e-323', '4.9e-324', '2.4703282292062327e-324', '2.4703282292062328e-324', '1e-400',
                '0.1', '1e23', '8.41e21', '9007199254740993.0', '9007199254740992.9999999', '0.' + '0' * 400 + '1', '1' + '0' * 400 + '.0', '1' + '0' * 400 + 'e-400', '.' + '9' * 40]:
        yield 'float-edge', lit


def run_shard(args):
    kind = args[0]
    tier = args[1]
    if kind == 'numbers':
        cases = list(number_strings(args[2], args[3], args[4] if len(args) > 4 else None))
    elif kind == 'list':
        cases = args[2]
    r = C.Result()
    for chunk in (cases[i:i + 5000] for i in range(0, len(cases), 5000)):
        res = C.run_worker(['parse\teval\t' + C.hx(lit) for _, lit in chunk])
        for (group, lit), obs in zip(chunk, res):
            out, sig, ref, got = judge(lit, obs, group)
            r.evaluations += 1
            r.by_bound[group] += 1
            r.outcomes['%s:%s' % (group.split('-')[0], out)] += 1
            if out == 'equal':
                r.validated += 1
                if len(r.samples) < 1 and len(lit) > 6:
                    r.samples.append(lit)
            if sig:
                r.fails.append(C.Fail(PROP, sig, 'literal', lit, {'observed': repr(got)[:300]}, {'python': repr(ref)[:300]}))
    r.extra['_hashes'] = {c01.h64(lit) for _, lit in cases}
    return r


def run(tier, seed):
    t0 = time.time()
    jobs = []
    gens = [esc_cases, name_cases, prefix_cases, newline_cases, quote_run_cases, concat_cases, big_numbers, float_cases]
    for g in gens:
        for ch in X.chunks(g(tier), 20000):
            jobs.append(('list', tier, ch))
    n = 5 if tier == 'quick' else 6
    jobs += [('numbers', tier, n, s) for s in X.prefix_shards(NUM_SIGMA, n, 2)]
    if tier != 'quick':
        jobs += [('numbers', tier, n + 1, s, NUM_CORE) for s in X.prefix_shards(NUM_CORE, n + 1, 2)]
    total = C.Result()
    allh = set()
    for r in C.pmap(run_shard, jobs):
        allh |= r.extra.pop('_hashes', set())
        total.merge(r)
    total.states = len(allh)
    total.transitions = total.evaluations
    total.nontrivial = total.validated
    rule = ('escapes: \\c for all 128 ASCII c and 12 non-ASCII x %d prefix spellings x 4 quote styles; all \\xHH (+ malformed); all octal escapes 0..0o777 in 1/2/3-digit spellings x 5 followers; '
            'all 65536 \\uXXXX; \\U at plane boundaries/surrogates/limits; \\N{name} for %s character name known to unicodedata (+ aliases, malformed forms); backslash-newline x LF/CRLF/CR; raw-quote rule; '
            'every prefix string of <=3 letters over rbufRBUF; every triple-quoted body of length<=%d over {a, LF, CR, backslash} and of <=%d symbols over {a, single quote, double quote, escaped quote, backslash-n, LF}; all pairs/triples of 13 literal kinds (incl. short octal escapes at the seam); every string of length<=%d over the '
            'number alphabet %r (thorough tier: also length 7 over the 10-symbol core 017_.e+jxb); integers 2^k, 2^k+-1 (k<=4096) and 10^k+-1 in four bases with underscores; floats m*10^e and the exact midpoints of adjacent doubles at binade boundaries; '
            'states = distinct literals; non-trivial = literals CPython accepts whose value was compared'
            % (len(KINDS), 'every' if tier == 'thorough' else 'every 7th', 5 if tier == 'thorough' else 4, 6 if tier == 'thorough' else 5, n, ''.join(NUM_SIGMA)))
    return C.finish(PROP, tier, seed, t0, total, rule,
                    ['CPython 3.11 ast.parse(literal, mode="eval") defines the value (lone surrogates compared as U+FFFD)', 'f-string kinds are only checked for "is an f-string" here (C07 compares their parts)'],
                    C.py_version())


def replay(path):
    case = json.load(open(path))['case']
    lit = case['input']
    group = case['signature'].split(' · ')[0]
    outs = []
    for _ in range(2):
        obs = C.run_worker(['parse\teval\t' + C.hx(lit)])[0]
        outs.append((obs, judge(lit, obs, group)))
    if json.dumps(outs[0][0], sort_keys=True) != json.dumps(outs[1][0], sort_keys=True):
        raise C.Machinery('replay is not deterministic')
    out, sig, ref, got = outs[0][1]
    print('replay %r: %s rust=%r python=%r' % (lit, out, got, ref))
    if sig == case['signature']:
        print('VIOLATION property=%s replay=%s' % (PROP, path))
        return 1
    return 0
