"""C12 — Fold and Visitor traverse the whole tree faithfully; the constant-tuple optimiser.
Every tree of the G_ref corpus, default and all-nodes-with-ranges builds: identity fold, tagging fold (callback once per range),
counting Visitor (multiset of visited node heads == multiset read off the Debug rendering), optimiser vs a reference
transformation on the generic tree + idempotence."""
import time, json
from .. import common as C, gref, corpus as K, relcheck as R
from . import c01

PROP = 'C12'
CONFIGS = ('default', 'all-nodes')


def ref_optimize(n):
    """reference transformation on the JSON generic tree: bottom-up, a Tuple with ctx Load whose elements are all constants becomes the tuple constant"""
    if isinstance(n, list):
        return [ref_optimize(x) for x in n]
    if not isinstance(n, dict):
        return n
    if 'f' in n:
        n = {'t': n['t'], 'f': {k: ref_optimize(v) for k, v in n['f'].items()}}
        return n
    if 'a' in n:
        n = {'t': n['t'], 'a': [ref_optimize(x) for x in n['a']]}
        if n['t'] == 'Tuple' and len(n['a']) == 1 and isinstance(n['a'][0], dict) and n['a'][0].get('t') == 'ExprTuple':
            f = n['a'][0]['f']
            elts = f['elts']
            if f['ctx'] == {'t': 'Load'} and all(isinstance(e, dict) and e.get('t') == 'Constant' for e in elts):
                vals = [e['a'][0]['f']['value'] for e in elts]
                return {'t': 'Constant', 'a': [{'t': 'ExprConstant', 'f': {'range': f['range'], 'value': {'t': 'Tuple', 'a': [vals]}, 'kind': {'t': 'None'}}}]}
        return n
    if 'u' in n:
        return {'u': [ref_optimize(x) for x in n['u']]}
    return n


def run_shard(args):
    paths, d, cfg, trees = args[:4]
    mode = args[4] if len(args) > 4 else 'exec'
    # Mod::Expression / Mod::Interactive roots: the expression corpus in expression mode, the statement corpus in interactive mode
    texts = [(t, '%s %s cost=%d' % (cfg, mode, c)) for t, c, _ in R.corpus_texts(paths, d, 'exprfile' if mode == 'eval' else 'file')]
    marg = '' if mode == 'exec' else '\t' + mode
    r = C.Result()
    for chunk in (texts[i:i + 2000] for i in range(0, len(texts), 2000)):
        res = C.run_worker(['c12\t%s%s%s' % (C.hx(t), '\ttrees' if trees else '', marg) for t, _ in chunk], cfg=cfg)
        for (text, tag), obs in zip(chunk, res):
            r.evaluations += 1
            r.by_bound[tag] += 1
            if K.is_bad(obs):
                r.outcomes['bad'] += 1
                r.fails.append(C.Fail(PROP, '%s · obs=%s' % (cfg, K.bad_kind(obs)), 'c12', text, obs, 'no panic'))
                continue
            if 'skip' in obs:
                r.outcomes['skip'] += 1
                continue
            fails = [tuple(x) for x in obs.get('fail', [])]
            if trees and 'orig' in obs:
                want = ref_optimize(obs['orig'])
                r.transitions += 1
                if want != obs['opt']:
                    changed = obs['opt'] != obs['orig']
                    fails.append(('constant optimiser differs from the reference transformation', 'optimised tree %s the input' % ('differs from' if changed else 'equals'),
                                  'reference %s the input' % ('changes' if want != obs['orig'] else 'keeps')))
            r.transitions += obs.get('ok', obs.get('n', 0))
            if not fails:
                r.outcomes['held ' + obs.get('cls', '')] += 1
                r.validated += 1
            else:
                r.outcomes['FAIL'] += 1
                seen = set()
                for rel, got, want in fails:
                    sig = '%s%s · %s' % (cfg, '' if mode == 'exec' else '/' + mode, R.norm_relation(rel))
                    if sig not in seen:
                        seen.add(sig)
                        r.fails.append(C.Fail(PROP, sig, 'c12', text, {'relation': rel, 'observed': got}, {'expected': want}))
    r.extra['_hashes'] = {c01.h64(t) for t, _ in texts}
    if texts:
        r.samples.append(texts[len(texts) // 2][0])
    return r


def run(tier, seed):
    t0 = time.time()
    d = K.DEPTH[tier]
    jobs = []
    for cfg in CONFIGS:
        for g in K.group_shards(K.shards_for(d, 'file'), 400 if tier == 'thorough' else 64):
            # the optimiser reference needs both trees as JSON: default build only (the all-nodes build is the same code)
            jobs.append((g, d, cfg, cfg == 'default'))
        for g in K.group_shards(K.shards_for(d - 1, 'file'), 32):
            jobs.append((g, d - 1, cfg, cfg == 'default', 'single'))
        for g in K.group_shards(K.shards_for(d, 'exprfile'), 32):
            jobs.append((g, d, cfg, cfg == 'default', 'eval'))
    total = C.Result()
    allh = set()
    for r in C.pmap(run_shard, jobs):
        allh |= r.extra.pop('_hashes', set())
        total.merge(r)
    total.states = len(allh)
    total.nontrivial = total.validated
    rule = ('every G_ref sentence with at most %d non-default alternatives that the parser accepts (module mode; interactive mode one level lower; the expression sub-grammar in expression mode), in the default and all-nodes-with-ranges builds: identity fold == input; tagging fold: '
            'will_map_user/map_user called once per range field of the Debug rendering, tags neither dropped nor duplicated, shape preserved; counting Visitor: multiset of visited '
            '(struct name, range) heads == multiset read off the Debug rendering; ConstantOptimizer == reference transformation on the generic tree, and idempotent; '
            'states = distinct texts, transitions = relations, non-trivial = accepted texts on which everything was checked' % d)
    return C.finish(PROP, tier, seed, t0, total, rule, ['derive(Debug) rendering is the independent census of nodes and ranges', 'reference optimiser in vp/props/c12.py'])


def replay(path):
    case = json.load(open(path))['case']
    head = case['signature'].split(' · ')[0]
    cfg, _, mode = head.partition('/')
    text = case['input']
    outs = []
    for _ in range(2):
        obs = C.run_worker(['c12\t%s\ttrees%s' % (C.hx(text), '\t' + mode if mode else '')], cfg=cfg if cfg in CONFIGS else 'default')[0]
        outs.append(obs)
    if json.dumps(outs[0], sort_keys=True) != json.dumps(outs[1], sort_keys=True):
        raise C.Machinery('replay is not deterministic')
    obs = outs[0]
    sigs = ['%s · %s' % (head, R.norm_relation(x[0])) for x in obs.get('fail', [])]
    if 'orig' in obs and ref_optimize(obs['orig']) != obs['opt']:
        sigs.append('%s · constant optimiser differs from the reference transformation' % head)
    print('replay %r: %s' % (text, sigs or 'holds'))
    if case['signature'] in sigs:
        print('VIOLATION property=%s replay=%s' % (PROP, path))
        return 1
    return 0
