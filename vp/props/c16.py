"""C16 — repr of text and bytes is a literal that decodes back to the same value.
E-STR / E-PROD: every Unicode scalar value, every short string over a 64-point class alphabet, every byte string
of length <= 2 and short byte strings over a 12-byte alphabet, through the real UnicodeEscape / AsciiEscape,
checked against CPython's repr / ast.literal_eval and re-parsed by the real Constant::parse."""
import time, json, ast, os, itertools
from .. import common as C, explore as X

PROP = 'C16'
TEXT_SIGMA = ["'", '"', '\\', '\0', '\t', '\n', '\r', '\x1b', '\x7f', ' ', 'a', '\x80', '\xa0', '\xad', 'é', 'ÿ', 'Ā', '́',
              ' ', ' ', '​', '　', '', '﻿', '�', '￿', '\U00010000', '\U0001f600', '\U000e0001',
              '\U0010ffff', '͸', '\U0003134b', '\x01', '\x1f', '~', '\x85', '\xff', '؜', ' ', '᠎', ' ', ' ',
              ' ', '⁠', '퟿', '', '￹', '\U000f0000', '\U00100000', '\U0001d7ff', '{', '}', '0', 'x', 'N', 'u', 'U',
              '\x0b', '\x0c', '\x08', '\x07', 'µ', '☃', '\U0002ffff']
QUOTE_CORE = ["'", '"', '\\', 'a', 'é', '\n']
BYTE_SIGMA = [0x27, 0x22, 0x5c, 0x00, 0x09, 0x0a, 0x0d, 0x20, 0x61, 0x7f, 0x80, 0xff]
DELTA_FILE = os.path.join(C.ROOT, 'vp', 'data', 'c16_delta.json')


def load_delta():
    d = set()
    for a, b in json.load(open(DELTA_FILE))['ranges']:
        d.update(range(a, b + 1))
    return d


def text_cases(tier):
    """yield (group, value)"""
    for cp in itertools.chain(range(0, 0xd800), range(0xe000, 0x110000)):
        yield 'scalar', chr(cp)
    n = 2 if tier == 'quick' else 3
    for l in range(0, n + 1):
        if l == 1:
            continue
        for t in itertools.product(TEXT_SIGMA, repeat=l):
            yield 'len%d' % l, ''.join(t)
    if tier != 'quick':
        for t in itertools.product(TEXT_SIGMA[:24], repeat=4):
            yield 'len4 (24-point core)', ''.join(t)
    # block-wise scanning (8-byte words): every string of length 7..10 over {a, ', "} and of length 8..9 over {a, ', LF, é}
    for l in range(7, 11 if tier == 'quick' else 13):
        for t in itertools.product("a'\"", repeat=l):
            yield 'blocks len%d' % l, ''.join(t)
    for l in (8, 9):
        for t in itertools.product("a'\né", repeat=l):
            yield 'blocks4 len%d' % l, ''.join(t)
    # quote choice depends on the counts of both quote kinds: every string of length 3..6 over a 6-symbol core
    for l in range(3, 7 if tier == 'quick' else 8):
        for t in itertools.product(QUOTE_CORE, repeat=l):
            yield 'quote-core len%d' % l, ''.join(t)


def bytes_cases(tier):
    for l in range(0, 3 if tier == 'quick' else 4):
        for t in itertools.product(range(256), repeat=l):
            yield 'blen%d' % l, bytes(t)
    n = 3 if tier == 'quick' else 4
    for l in range(3, n + 1):
        for t in itertools.product(BYTE_SIGMA, repeat=l):
            yield 'bsig%d' % l, bytes(t)


def judge_text(s, v, reparsed, delta):
    """-> list of (sig, note)"""
    out = []
    if 'repr' not in v:
        return [('text · obs=panic/crash', '')]
    r = v['repr']
    pr = repr(s)
    try:
        ok = ast.literal_eval(r) == s
    except Exception:
        ok = False
    if not ok:
        out.append(('text · repr does not evaluate back in CPython', ''))
    if reparsed is not None:
        rv = reparsed.get('ok')
        if not (isinstance(rv, dict) and rv.get('t') == 'Str' and rv['a'][0] == s):
            out.append(('text · repr does not parse back with Constant::parse', ''))
    if r[:1] != pr[:1]:
        out.append(('text · quote choice differs from Python', ''))
    if v['len'] is None or v['len'] != len(r.encode('utf-8', 'surrogatepass')) - 2:
        out.append(('text · layout length != rendered body length', ''))
    if v['changed'] != (r[1:-1] != s):
        out.append(('text · changed() disagrees with body==source', ''))
    if v['to_string'] != r:
        out.append(('text · to_string() differs from Display', ''))
    if not any(ord(c) in delta for c in s) and r != pr:
        out.append(('text · differs from Python repr outside the version-delta set', ''))
    return out


def judge_bytes(b, v, reparsed):
    out = []
    if 'repr' not in v:
        return [('bytes · obs=panic/crash', '')]
    r = v['repr']
    if r != repr(b):
        out.append(('bytes · differs from Python repr', ''))
    try:
        ok = ast.literal_eval(r) == b
    except Exception:
        ok = False
    if not ok:
        out.append(('bytes · repr does not evaluate back in CPython', ''))
    if reparsed is not None:
        rv = reparsed.get('ok')
        if not (isinstance(rv, dict) and rv.get('t') == 'Bytes' and bytes(int(x['n']) for x in rv['a'][0]) == b):
            out.append(('bytes · repr does not parse back with Constant::parse', ''))
    if v['len'] is None or v['len'] != len(r) - 3:
        out.append(('bytes · layout length != rendered body length', ''))
    if v['changed'] != (r[2:-1].encode('latin-1', 'replace') != b):
        out.append(('bytes · changed() disagrees with body==source', ''))
    if v['to_string'] != r:
        out.append(('bytes · to_string() differs from Display', ''))
    return out


def run_chunk(args):
    kind, chunk = args
    delta = load_delta()
    r = C.Result()
    op = 'srepr' if kind == 'text' else 'brepr'
    res = C.run_worker([op + '\t' + C.hx(val) for _, val in chunk])
    # second stage: feed the real repr back into the real parser
    idx = [i for i, v in enumerate(res) if 'repr' in v]
    rep = C.run_worker(['const\t' + C.hx(res[i]['repr']) for i in idx])
    reparsed = dict(zip(idx, rep))
    for i, ((group, val), v) in enumerate(zip(chunk, res)):
        sigs = judge_text(val, v, reparsed.get(i), delta) if kind == 'text' else judge_bytes(val, v, reparsed.get(i))
        r.evaluations += 1
        r.by_bound[group] += 1
        changed = v.get('changed')
        r.outcomes['%s:%s:%s' % (kind, 'escaped' if changed else 'verbatim', 'ok' if not sigs else 'FAIL')] += 1
        if changed:
            r.nontrivial += 1
        inp = val if kind == 'text' else {'hex': val.hex()}
        for sig, note in sigs:
            r.fails.append(C.Fail(PROP, sig, kind, inp, v, {'python_repr': repr(val)}, note))
        if len(r.samples) < 1 and changed and len(val) >= 2:
            r.samples.append({'value': repr(val), 'rust_repr': v.get('repr')})
    r.states = r.transitions = r.evaluations
    r.validated = r.evaluations + len(idx)
    return r


def run(tier, seed):
    t0 = time.time()
    if not os.path.exists(DELTA_FILE):
        raise C.Machinery('missing frozen version-delta table ' + DELTA_FILE)
    jobs = [('text', ch) for ch in X.chunks(text_cases(tier), 30000)] + [('bytes', ch) for ch in X.chunks(bytes_cases(tier), 30000)]
    total = C.Result()
    for r in C.pmap(run_chunk, jobs):
        total.merge(r)
    total.extra['delta_set_size'] = len(load_delta())
    rule = ('text: every Unicode scalar value as a 1-char string + every string of length<=%d over a %d-point class alphabet + every string of length 3..%d over {\', ", backslash, a, é, LF} (quote choice) + every string of length 7..%d over {a, \', "} and 8..9 over {a, \', LF, é} (block-wise scanning); bytes: every '
            'byte string of length<=%d + every string of length<=%d over a 12-byte alphabet; each through UnicodeEscape/AsciiEscape::new_repr, '
            'the result fed to CPython ast.literal_eval and to the real Constant::parse; non-trivial = the value needs at least one escape '
            '(changed()); distinct = distinct value' % (2 if tier == 'quick' else 3, len(TEXT_SIGMA), 6 if tier == 'quick' else 7, 10 if tier == 'quick' else 12, 2 if tier == 'quick' else 3, 3 if tier == 'quick' else 4)
            + ('' if tier == 'quick' else '; text of length 4 over the first 24 points of the class alphabet'))
    return C.finish(PROP, tier, seed, t0, total, rule,
                    ['CPython 3.11 repr/ast.literal_eval define the reference',
                     'frozen version-delta set D (vp/data/c16_delta.json): code points whose printable status differs between the crate\'s '
                     'Unicode tables and CPython 3.11\'s; textual identity with Python is not demanded for strings containing them'],
                    C.py_version())


def replay(path):
    case = json.load(open(path))['case']
    kind = case['op']
    val = case['input'] if kind == 'text' else bytes.fromhex(case['input']['hex'])
    a = run_chunk((kind, [('replay', val)]))
    b = run_chunk((kind, [('replay', val)]))
    if [f.to_json() for f in a.fails] != [f.to_json() for f in b.fails]:
        raise C.Machinery('replay is not deterministic')
    for f in a.fails:
        print('replay: %s' % f.sig)
    if a.fails:
        print('VIOLATION property=%s replay=%s' % (PROP, path))
        return 1
    print('replay: holds')
    return 0
