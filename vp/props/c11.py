"""C11 — unparsing an expression and parsing it again gives the same expression.
Every expression tree the parser produces from: the expression sub-grammar of G_ref (d<=2 quick / d<=3 thorough), the
operator-and-parenthesis sub-grammar one level deeper, and a constant alphabet (boundary floats, huge ints, strings/bytes over
the escape alphabet, complex); self-relation decided inside the worker on the real Expr::parse / Display."""
import time, json, itertools
from .. import common as C, gref, corpus as K, explore as X, relcheck as R
from . import c01

PROP = 'C11'

OPG = {
    'exprfile': [[gref.N('expr')]],
    'expr': [[gref.N('atom')]]
            + [[gref.E, op, gref.E] for op in ['+', '*', '**', '@', '<<', '|', '&', '^', '//']]
            + [[gref.E, op, gref.E] for op in ['<', 'is not', 'not in', '==']]
            + [[gref.E, 'and', gref.E], [gref.E, 'or', gref.E]]
            + [['not', gref.E], ['-', gref.E], ['~', gref.E], ['await', gref.E]]
            + [[gref.E, 'if', gref.E, 'else', gref.E], ['lambda', ':', gref.E], ['lambda', 'p', ':', gref.E]]
            + [['(', gref.E, ')'], ['(', 'q', ':=', gref.E, ')'], ['(', 'yield', gref.E, ')'], ['(', '*', gref.E, ',', ')'], ['(', gref.E, ',', gref.E, ')']]
            + [[gref.E, '(', gref.E, ')'], [gref.E, '(', '*', gref.E, ')'], [gref.E, '(', '**', gref.E, ')'], [gref.E, '(', 'k', '=', gref.E, ')'],
               [gref.E, '[', gref.E, ']'], [gref.E, '[', gref.E, ':', gref.E, ']'], [gref.E, '.', 'm']]
            + [['[', gref.E, ']'], ['{', gref.E, ':', gref.E, '}'], ['{', '**', gref.E, '}'], ['{', gref.E, '}'], ['[', gref.E, 'for', 't', 'in', gref.E, 'if', gref.E, ']']],
    'atom': [['a'], ['1'], ['1.5'], ["'s'"], ['2j'], ["f'{", gref.E, "}'"]],
}

CONSTS = ['0', '1', '255', '18446744073709551615', '18446744073709551616', '10**40', '1' + '0' * 60, '0xffffffffffffffffffff', '0o777', '0b101',
          '0.0', '1.0', '0.1', '1e16', '1e15', '9999999999999998.0', '1e-5', '0.0001', '1e22', '1e23', '5e-324', '1.7976931348623157e308', '1e999', '0.9999999999999999',
          '1.0000000000000002', '123456789.123456789', '1e-7', '2j', '0j', '1.5j', '1e999j', '1e16j', '(1+2j)', '-1', '-1.5', '-0.0', '-2j',
          'None', 'True', 'False', '...', '""', "b''", "u'x'", "'a' 'b'", "b'a' b'b'"]
STR_SIGMA = ["'", '"', '\\\\', '\\n', '\\t', '\\r', '\\x00', '\\x7f', '\\x80', 'a', 'é', '\\u2028', '\\U0001f600', ' ', '{', '}', '\\ufeff', '\\N{DASH}']
BYTES_SIGMA = ["'", '"', '\\\\', '\\n', '\\x00', '\\xff', 'a', ' ', '\\t']


def const_texts(tier):
    out = list(CONSTS)
    n = 2
    for l in range(0, n + 1):
        for t in itertools.product(STR_SIGMA, repeat=l):
            body = ''.join(t)
            for q in ('"""', "'''") if ("'" in body and '"' in body) else ('"""',):
                pass
            # write the value as a triple-quoted literal when it contains quotes, escaping the delimiter
            if '"' in t or "'" in t:
                lit = "'''" + body.replace("'", "\\'") + "'''"
            else:
                lit = "'" + body + "'"
            out.append(lit)
            out.append('f' + lit.replace('{', '{{').replace('}', '}}'))
    for l in range(0, n + 1):
        for t in itertools.product(BYTES_SIGMA, repeat=l):
            body = ''.join(t)
            out.append("b'''" + body.replace("'", "\\'") + "'''")
    # constants in operand positions that interact with precedence / attribute access
    for c in ['1', '1.5', '2j', '-1', '1e16', "'s'"]:
        out += ['%s . real' % c if c == '1' else '(%s).real' % c, '- %s' % c, '%s ** 2' % c, '2 ** %s' % c, '(- %s) ** 2' % c, 'a [ %s ]' % c, '{ %s : %s }' % (c, c)]
    return out


FSTR = ["f'{a}'", "f'{a!r}'", "f'{a:>{w}}'", "f'{a!s:{w}.{p}}'", "f'{a=}'", "f'{a = }'", "f'{{}}'", "f'{a}{b}'", "f'x{a}y{b}z'", 'f"{a[\'k\']}"', "f'{a[\"k\"]}'",
        "f'{(lambda: 1)()}'", "f'{a if b else c}'", "f'{a:{b:{c}}}'", "f'{\"s\"}'", "f\"{'s'}\"", "f'''{a}'''", "f'{a!a:x}'", "f'{a:x}{b!r}'", "'x' f'{a}' 'y'",
        "f'{a}' f'{b}'", "f'{{{a}}}'", "f'{a:{{}}}'", "f'\\n{a}'", "f'{a}\\''", "f'{a:\\n}'", "f'{*a,}'", "f'{a,}'", "f'{(a:=1)}'", "f'{a!r:^{w}}'", "rf'{a}\\d'",
        "f'{a:}'", "f'{a:{b}}'", "f'{ {1: 2}[1] }'", "f'{ {1, 2} }'", "f'{a}\"'", "f\"{a}'\"", "f'''{a}'\"'''", "f'{b\"x\"}'", "f'{3.}'", "f'{3.:.2f}'", "f'{-1}'",
        "f'{a.b}'", "f'{a()}'", "f'{not a}'", "f'{a or b}'", "f'{yield}'", "f'{await a}'", "f'{a < b}'", "f'{a != b}'", "f'{a!=b!r}'", 'f"{a}" "\\\n"', '"\\\n" f"{a}"', "u'a' f'{a}b'", "f'{a:xé}{b}'"]


def lambda_texts(tier):
    """lambda with every valid parameter list of <=4 (5) items over the parameter forms (positional-only marker, defaults, *args, bare *,
    keyword-only with and without default, **kwargs)"""
    import ast
    P = ['a', 'b=1', 'c', '/', '*', '*v', 'k', 'j=2', '**w']
    out = []
    for n in range(0, 5 if tier == 'quick' else 6):
        for combo in itertools.product(P, repeat=n):
            if len(set(x.split('=')[0].lstrip('*') for x in combo if x not in ('/', '*'))) != len([x for x in combo if x not in ('/', '*')]):
                continue
            t = 'lambda %s: a' % ', '.join(combo)
            try:
                ast.parse(t, mode='eval')
            except SyntaxError:
                continue
            out.append(t)
    return out


def run_shard(args):
    kind = args[0]
    if kind == 'corpus':
        _, paths, d = args
        texts = [(t.rstrip('\n'), 'expr cost=%d' % c) for t, c, _ in R.corpus_texts(paths, d, 'exprfile')]
    elif kind == 'opg':
        _, paths, d = args
        e = gref.Enum(OPG)
        seen = set()
        texts = []
        for p in paths:
            for toks, c in e.gen(gref.N('exprfile'), d, p):
                t = ' '.join(toks)
                if t not in seen:
                    seen.add(t)
                    texts.append((t, 'operators cost=%d' % c))
    else:
        texts = [(t, 'constants') for t in const_texts(args[1])] + [(t, 'f-strings') for t in FSTR] + [(t, 'lambda signatures') for t in lambda_texts(args[1])]
    r = R.run_texts(PROP, 'unparse', texts)
    r.extra['_hashes'] = {c01.h64(t) for t, _ in texts}
    if texts:
        r.samples.append(texts[len(texts) // 2][0])
    return r


def opg_shards(d):
    return [p for p in gref.spine_shards('exprfile', OPG, {'exprfile', 'expr'}) if gref.shard_min_cost(p) <= d]


def run(tier, seed):
    t0 = time.time()
    d = K.DEPTH[tier]
    jobs = [('corpus', g, d) for g in K.group_shards(K.shards_for(d, 'exprfile'), 200 if tier == 'thorough' else 48)]
    jobs += [('opg', g, d + 1) for g in K.group_shards(opg_shards(d + 1), 200 if tier == 'thorough' else 48)]
    jobs.append(('consts', tier))
    total = C.Result()
    allh = set()
    for r in C.pmap(run_shard, jobs):
        allh |= r.extra.pop('_hashes', set())
        total.merge(r)
    total.states = len(allh)
    total.nontrivial = total.outcomes.get('held ', 0) + sum(v for k, v in total.outcomes.items() if k.startswith('held'))
    rule = ('every expression text from: the expression sub-grammar of G_ref with <=%d non-default alternatives; the operator-and-parenthesis sub-grammar (%d alternatives, every operator '
            'class, parentheses at every operand position, calls/subscripts/comprehension/lambda/conditional) with <=%d; %d constant, f-string and lambda-signature forms; each parsed by Expr::parse, rendered with '
            'Display, re-parsed, compared up to ranges and ctx, rendered again (fixed point); states = distinct texts; non-trivial = texts the parser accepts (those are judged)'
            % (d, gref.n_alternatives(OPG), d + 1, len(const_texts(tier)) + len(FSTR) + len(lambda_texts(tier))))
    return C.finish(PROP, tier, seed, t0, total, rule, ['self-relation on the real parser and unparser; Debug rendering with range/ctx erased is the equality'])


def replay(path):
    return R.replay_text(PROP, 'unparse', path)
