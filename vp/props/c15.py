"""C15 — position primitives: line index, newline iteration, range algebra match the text.
Rust engine (harness/vworker/src/engines/c15.rs): every text over {a, é, LF, CR, 😀, U+FEFF} up to length n through
LineIndex/SourceCode at every offset and line number; explicit exploration of every next()/next_back() interleaving of
UniversalNewlineIterator against a reference deque; TextRange/TextSize algebra on all pairs of ranges over a boundary endpoint set."""
import time, json
from .. import common as C

PROP = 'C15'
BOUNDS = {'quick': dict(n=8, iter_n=8), 'thorough': dict(n=11, iter_n=10)}


def run(tier, seed):
    t0 = time.time()
    b = BOUNDS[tier]
    d = C.run_engine('c15', b)
    r = C.engine_to_result(PROP, d, 'engine')
    rule = ('texts: every string over {a, é, LF, CR, 😀, U+FEFF} of length<=%(n)d x every character-boundary offset x every '
            'line number 1..count+1 through LineIndex/SourceCode; newline iterator: for every text over {a, é, LF, CR} of length<=%(iter_n)d, every sequence of '
            'next()/next_back() calls to exhaustion (+2 calls) at offsets 0 and 7 against a reference deque (states = (text, taken-front, taken-back), transitions = calls); '
            'ranges: every TextRange with endpoints in {0..6, 2^32-3..2^32-1}, all ordered pairs, all offsets of the same set; non-trivial = text with a line break / range pair' % b)
    return C.finish(PROP, tier, seed, t0, r, rule,
                    ['reference models written in the harness: CR/LF/CRLF line splitter, Vec of reference lines, ranges as u64 pairs',
                     'operations documented to panic are expected to panic exactly when the result is not representable (overflow checks on)'])


def replay(path):
    # the engine is deterministic and takes < 1 s at the quick bound: replay = re-run it twice and look for the recorded signature+input
    case = json.load(open(path))['case']
    hits = []
    for _ in range(2):
        d = C.run_engine('c15', BOUNDS['thorough'] if 'thorough' in path else BOUNDS['quick'])
        hits.append([f for f in d['fails'] if f[0] == case['signature'] and f[1] == case['input']])
    if hits[0] != hits[1]:
        raise C.Machinery('replay is not deterministic')
    if hits[0]:
        print('replay: %s on %r -> %s' % (case['signature'], case['input'], hits[0][0][2]))
        print('VIOLATION property=%s replay=%s' % (PROP, path))
        return 1
    print('replay: holds')
    return 0
