"""C05 — the token stream tiles the source: nothing dropped, nothing misplaced.
Texts: all character strings up to the bound, all lexeme pairs/triples, the G_ref corpus under layouts; both lexer configurations,
three modes. Oracles: reference-free tiling invariants computed from (Tok, range) and the text, and agreement with CPython's C tokenizer
(_tokenize.TokenizerIter) on NAME / NUMBER / STRING / operator tokens."""
import time, json, re, itertools, _tokenize, token as pytoken
from .. import common as C, gref, corpus as K, explore as X, relcheck as R
from . import c01, c02

PROP = 'C05'
CONFIGS = ('default', 'full-lexer')

SPELL = {
    'Lpar': '(', 'Rpar': ')', 'Lsqb': '[', 'Rsqb': ']', 'Colon': ':', 'Comma': ',', 'Semi': ';', 'Plus': '+', 'Minus': '-', 'Star': '*', 'Slash': '/', 'Vbar': '|',
    'Amper': '&', 'Less': '<', 'Greater': '>', 'Equal': '=', 'Dot': '.', 'Percent': '%', 'Lbrace': '{', 'Rbrace': '}', 'EqEqual': '==', 'NotEqual': '!=',
    'LessEqual': '<=', 'GreaterEqual': '>=', 'Tilde': '~', 'CircumFlex': '^', 'LeftShift': '<<', 'RightShift': '>>', 'DoubleStar': '**', 'DoubleStarEqual': '**=',
    'PlusEqual': '+=', 'MinusEqual': '-=', 'StarEqual': '*=', 'SlashEqual': '/=', 'PercentEqual': '%=', 'AmperEqual': '&=', 'VbarEqual': '|=', 'CircumflexEqual': '^=',
    'LeftShiftEqual': '<<=', 'RightShiftEqual': '>>=', 'DoubleSlash': '//', 'DoubleSlashEqual': '//=', 'At': '@', 'AtEqual': '@=', 'Rarrow': '->', 'Ellipsis': '...',
    'ColonEqual': ':=',
}
KEYWORD = {k: k.lower() for k in ['And', 'As', 'Assert', 'Async', 'Await', 'Break', 'Class', 'Continue', 'Def', 'Del', 'Elif', 'Else', 'Except', 'Finally', 'For', 'From',
                                  'Global', 'If', 'Import', 'In', 'Is', 'Lambda', 'Nonlocal', 'Not', 'Or', 'Pass', 'Raise', 'Return', 'Try', 'While', 'Match', 'Type',
                                  'Case', 'With', 'Yield']}
KEYWORD.update({'False': 'False', 'None': 'None', 'True': 'True'})
LAYOUT_TOKS = {'Newline', 'Indent', 'Dedent', 'NonLogicalNewline', 'Comment'}
PREFIX = {'String': [''], 'Unicode': ['u'], 'FString': ['f'], 'Bytes': ['b'], 'RawString': ['r'], 'RawFString': ['rf', 'fr'], 'RawBytes': ['rb', 'br']}
GAP_DEFAULT = re.compile(r'(?:[ \t\x0c]|#[^\r\n]*|\\(?:\r\n|\r|\n)|\r\n|\r|\n)*\Z')
GAP_FULL = re.compile(r'(?:[ \t\x0c]|\\(?:\r\n|\r|\n))*\Z')
LEXEMES = list(SPELL.values()) + ['!', 'if', 'not', 'in', 'is', 'lambda', 'match', 'case', 'type', 'a', '_x', 'é', '1', '0x1f', '1.5', '1e3', '2j', '0', '00', '1_0', "'s'", '"t"', "b'x'",
                                   "rb'\\d'", "f'{a}'", "'''m'''", ' ', '\t', '\n', '\\\n', '# c\n', '\r\n']


def num_value(text):
    t = text.replace('_', '')
    if t[-1:] in 'jJ':
        return ('complex', complex(t))
    try:
        return ('int', int(t, 0))
    except ValueError:
        return ('float', float(t))


def invariants(text, obs, full):
    """-> list of (clause, detail)"""
    out = []
    data = text.encode('utf-8')
    n = len(data)
    toks = obs['toks']
    prev_end = 0
    depth = 0
    indents = 0
    last_sig = 'Newline'   # what precedes: start of input counts as a line start
    gap_re = GAP_FULL if full else GAP_DEFAULT

    def boundary(o):
        return o == 0 or o == n or (data[o] & 0xC0) != 0x80

    for tok, a, b in toks:
        name = tok['t']
        if not (0 <= a <= b <= n):
            out.append(('range outside the input', '%s %d..%d len=%d' % (name, a, b, n)))
            return out
        if not (boundary(a) and boundary(b)):
            out.append(('range not on a character boundary', '%s %d..%d' % (name, a, b)))
            return out
        if a < prev_end:
            out.append(('ranges overlap or go backwards', '%s %d..%d after end %d' % (name, a, b, prev_end)))
            return out
        gap = data[prev_end:a].decode('utf-8')
        if prev_end == 0 and gap.startswith('\ufeff'):
            gap = gap[1:]  # a leading BOM belongs to no token
        if not gap_re.match(gap):
            out.append(('text between tokens is not only whitespace/comments/line joins', repr(gap)))
        sl = data[a:b].decode('utf-8')
        if name == 'Name':
            if tok['f']['name'] != sl:
                out.append(('a name token does not spell its text', '%r vs %r' % (tok['f']['name'], sl)))
        elif name in SPELL:
            if SPELL[name] != sl:
                out.append(('an operator token does not spell its text', '%s over %r' % (name, sl)))
            if name in ('Lpar', 'Lsqb', 'Lbrace'):
                depth += 1
            elif name in ('Rpar', 'Rsqb', 'Rbrace'):
                depth -= 1
        elif name in KEYWORD:
            if KEYWORD[name] != sl:
                out.append(('a keyword token does not spell its text', '%s over %r' % (name, sl)))
        elif name in ('Int', 'Float', 'Complex'):
            try:
                kind, val = num_value(sl)
                f = tok['f']
                if name == 'Int':
                    ok = kind == 'int' and int(f['value']['n']) == val
                elif name == 'Float':
                    fv = f['value']
                    got = float(fv['n']) if 'n' in fv else float(fv['t'].lower())
                    ok = kind in ('float', 'int') and got == float(val) and kind == 'float'
                else:
                    def fl(x):
                        return float(x['n']) if 'n' in x else float(x['t'].lower())
                    ok = kind == 'complex' and complex(fl(f['real']), fl(f['imag'])) == val
            except (ValueError, OverflowError):
                ok = False
            if not ok:
                out.append(('a number token does not carry the value of its digits', '%s %s over %r' % (name, json.dumps(tok.get('f')), sl)))
        elif name == 'String':
            f = tok['f']
            kind = f['kind']['t']
            triple = f['triple_quoted']['t'] == 'true'
            m = re.match(r'([A-Za-z]{0,2})(\'\'\'|"""|\'|")', sl)
            ok = bool(m)
            if m:
                pre, q = m.group(1).lower(), m.group(2)
                ok = pre in PREFIX.get(kind, []) and (len(q) == 3) == triple and sl.endswith(q) and len(sl) >= len(pre) + 2 * len(q)
                if ok:
                    body = sl[len(pre) + len(q):len(sl) - len(q)]
                    # the token's value is the body with line breaks normalised to LF (triple-quoted text, backslash-newline joins)
                    body = body.replace('\r\n', '\n').replace('\r', '\n')
                    ok = body == f['value']
            if not ok:
                out.append(('a string token does not cover prefix, quotes and body', '%s over %r' % (json.dumps(f, ensure_ascii=False), sl)))
        elif name == 'Newline':
            if depth > 0:
                out.append(('NEWLINE inside brackets', '%d..%d depth %d' % (a, b, depth)))
            if sl not in ('\n', '\r', '\r\n', ''):
                out.append(('NEWLINE token does not cover a line break', repr(sl)))
        elif name == 'Indent':
            indents += 1
            if last_sig != 'Newline':
                out.append(('INDENT not at the start of a logical line', 'after %s' % last_sig))
        elif name == 'Dedent':
            indents -= 1
            if last_sig not in ('Newline', 'Dedent'):
                out.append(('DEDENT not at the start of a logical line', 'after %s' % last_sig))
            if indents < 0:
                out.append(('DEDENT without a matching INDENT', ''))
        elif name == 'Comment':
            if not full:
                out.append(('Comment token without the full-lexer feature', ''))
            if tok['a'][0] != sl or not sl.startswith('#') or '\n' in sl or '\r' in sl:
                out.append(('a comment token does not carry its exact text', '%r over %r' % (tok['a'][0], sl)))
        elif name == 'NonLogicalNewline':
            if not full:
                out.append(('NonLogicalNewline token without the full-lexer feature', ''))
            if sl not in ('\n', '\r', '\r\n'):
                out.append(('a non-logical newline token does not cover a line break', repr(sl)))
        else:
            out.append(('unknown token kind', name))
        if name not in ('Comment', 'NonLogicalNewline'):
            last_sig = name
        prev_end = b
    if 'err' not in obs:
        gap = data[prev_end:].decode('utf-8')
        if prev_end == 0 and gap.startswith('\ufeff'):
            gap = gap[1:]
        if not gap_re.match(gap):
            out.append(('text after the last token is not only whitespace/comments/line joins', repr(gap)))
        if indents != 0:
            out.append(('INDENT without a matching DEDENT before the end of input', 'balance %d' % indents))
    return out


def significant(obs, data):
    """(category, text, start, end) of NAME / NUMBER / STRING / OP tokens of the Rust stream"""
    out = []
    for tok, a, b in obs['toks']:
        name = tok['t']
        if name in LAYOUT_TOKS:
            continue
        cat = 'NAME' if (name == 'Name' or name in KEYWORD) else ('NUMBER' if name in ('Int', 'Float', 'Complex') else ('STRING' if name == 'String' else 'OP'))
        txt = data[a:b].decode('utf-8', 'replace')
        if cat == 'STRING':
            txt = txt.replace('\r\n', '\n').replace('\r', '\n')  # the reference tokenizer sees universal-newline-translated text
        out.append((cat, txt, a, b))
    return out


def cpython_tokens(text, data):
    """-> (list of (category, text, start, end), complete?) from the C tokenizer; None if it cannot be consulted"""
    starts = c02.line_starts(data)
    out = []
    complete = True
    try:
        for t in _tokenize.TokenizerIter(text):
            s, ty, l1, l2, c1, c2 = t[:6]
            if ty in (pytoken.NEWLINE, pytoken.INDENT, pytoken.DEDENT, pytoken.ENDMARKER, pytoken.NL, pytoken.COMMENT):
                continue
            if ty == pytoken.ERRORTOKEN or c1 < 0:
                complete = False
                break
            cat = {pytoken.NAME: 'NAME', pytoken.NUMBER: 'NUMBER', pytoken.STRING: 'STRING', pytoken.ASYNC: 'NAME', pytoken.AWAIT: 'NAME'}.get(ty, 'OP')
            if l1 - 1 >= len(starts) or l2 - 1 >= len(starts):
                complete = False
                break
            a, b = starts[l1 - 1] + c1, starts[l2 - 1] + c2
            if cat == 'OP' and s == '<>':
                # the C tokenizer knows the PEP 401 joke operator (the grammar then rejects it): no reference from here on
                complete = False
                break
            out.append((cat, s, a, b))
    except (SyntaxError, ValueError, IndexError, UnicodeError):
        complete = False
    return out, complete


BACKSLASH_LINE = re.compile(r'(^|\n|\r)[ \t\x0c]*\\(\r\n|\r|\n)')


def judge(text, mode, obs, full):
    """-> (outcome, [(sig, detail)])"""
    if K.is_bad(obs) or 'runaway' in obs:
        return 'bad', [('lex · obs=%s' % (K.bad_kind(obs) if K.is_bad(obs) else 'token stream does not end'), '')]
    fails = []
    seen = set()
    for clause, detail in invariants(text, obs, full):
        if clause not in seen:
            seen.add(clause)
            fails.append(('tiling · ' + clause, detail))
    if 'err' in obs:
        # the property quantifies over inputs that lex without error; the prefix invariants above were still checked
        return ('lex-error' if not fails else 'lex-error+FAIL'), fails
    data = text.encode('utf-8')
    if '\x00' in text or '\x0c' in text:
        return ('ok(no reference: NUL/FF)' if not fails else 'FAIL'), fails
    ref, complete = cpython_tokens(text, data)
    got = significant(obs, data)
    k = len(ref)
    if got[:k] != ref[:len(got[:k])] or (complete and len(got) != len(ref)) or len(got) < k:
        # first difference
        i = 0
        while i < min(len(got), len(ref)) and got[i] == ref[i]:
            i += 1
        g = got[i] if i < len(got) else None
        r = ref[i] if i < len(ref) else None
        fails.append(('reference tokenizer · %s vs %s' % ('%s' % (g[0] if g else 'end'), '%s' % (r[0] if r else 'end')), 'rust %r cpython %r' % (g, r)))
    return ('agree' if not fails else 'FAIL'), fails


def run_shard(args):
    kind = args[0]
    if kind == 'machine':
        return machine(args[1])
    if kind == 'chars':
        _, n, shard, sigma = args
        texts = [(t, 'chars len=%d' % l) for t, l in X.shard_strings(sigma, n, shard)]
        modes = ('exec',)
    elif kind == 'dense':
        texts = R.dense_family_texts(args[1])[args[2]::8]
        modes = ('exec',)
    elif kind == 'bignum':
        from . import c06
        texts = [(t, 'big numbers') for _, t in c06.big_numbers(args[1])][args[2]::4]
        modes = ('eval',)
    elif kind == 'lexemes':
        _, n, shard = args
        texts = []
        for t, l in X.shard_strings(LEXEMES, n, shard):
            texts.append((t, 'lexemes n=%d' % l))
        modes = ('exec',)
    else:
        _, paths, d = args
        texts = [(t, '%s cost=%d' % (ln, c)) for t, c, ln in R.corpus_texts(paths, d, 'file', ['plain', 'comments-crlf-tab', 'spread-comments', 'cr', 'bom', 'trivia-run'])]
        modes = ('exec', 'single', 'eval')
    r = C.Result()
    for chunk in (texts[i:i + 4000] for i in range(0, len(texts), 4000)):
        for cfg in CONFIGS:
            for mode in modes:
                res = C.run_worker(['lex\t%s\t%s' % (mode, C.hx(t)) for t, _ in chunk], cfg=cfg)
                for (text, tag), obs in zip(chunk, res):
                    out, fails = judge(text, mode, obs, cfg == 'full-lexer')
                    r.evaluations += 1
                    r.outcomes['%s:%s' % (cfg, out)] += 1
                    if cfg == 'default' and mode == 'exec':
                        r.by_bound[tag] += 1
                    if 'toks' in obs:
                        r.transitions += len(obs['toks'])
                    if out == 'agree':
                        r.validated += 1
                    for sig, detail in fails:
                        r.fails.append(C.Fail(PROP, '%s · %s' % (cfg, sig), 'lex', {'mode': mode, 'text': text}, {'detail': detail}, None))
    r.extra['_hashes'] = {c01.h64(t) for t, _ in texts}
    if texts:
        r.samples.append(texts[len(texts) // 2][0])
    return r


# ---------------------------------------------------------------- E-STATE: the lexer's line machine (hook H1)
M_INDENTS = ['', ' ', '  ', '    ', '        ', '\t', '\t\t', ' \t', '\t ', '  \t', '\t  ', '\x0c', '\x0c  ', '  \x0c', '   ', '\t\t\t']
M_BODIES = ['a', 'if a:', 'x = (', ')', '# c', '', 'b = [1,', ']', 'else:', 'a \\', 'pass', '{', '}:', 'def f(', 'q):']
M_MAX_STACK = 4
M_MAX_NEST = 2
SENTINEL = 'z\n'


def machine(tier):
    """BFS over the canonical states of the lexer at a physical line boundary: (indentation stack, bracket nesting), read through hook H1.
    A state is represented by a shortest text that reaches it; every (state, line template) transition is executed on the real lexer
    (text + line + sentinel line), its tokens are checked with the tiling invariants, and the abstraction is asserted: a second history
    reaching the same canonical state must produce the same tokens (relative to the line start) and the same successor for every line."""
    r = C.Result()
    lines = [i + b + '\n' for i in M_INDENTS for b in M_BODIES]
    init = ((('0', '0'),), 0)
    reps = {init: ['']}          # state -> up to two histories
    frontier = [init]
    seen_trans = 0
    outcomes = {}
    def state_after(obs, at):
        for loc, abol, nesting, st in obs.get('bounds', []):
            if loc == at:
                return (tuple((str(t), str(sp)) for t, sp in st), nesting)
        return None
    depth = 0
    while frontier and depth < 12:
        depth += 1
        reqs = []
        for st in frontier:
            for hi, hist in enumerate(reps[st][:2]):
                for li, line in enumerate(lines):
                    reqs.append((st, hi, hist, li, line))
        res = []
        for chunk in (reqs[i:i + 6000] for i in range(0, len(reqs), 6000)):
            res += C.run_worker(['lexb\texec\t' + C.hx(h + l + SENTINEL) for _, _, h, _, l in chunk])
        nxt = []
        first = {}
        for (st, hi, hist, li, line), obs in zip(reqs, res):
            base = len(hist.encode())
            end = base + len(line.encode())
            r.evaluations += 1
            r.transitions += 1
            if K.is_bad(obs):
                r.fails.append(C.Fail(PROP, 'line machine · obs=%s' % K.bad_kind(obs), 'lexm', {'history': hist, 'line': line}, obs, None))
                continue
            seg = [(t['t'], a - base, b - base) for t, a, b in obs['toks'] if base <= a < end or (a == end and t['t'] in ('Newline',))]
            err = None
            if 'err' in obs and obs['off'] <= end:
                err = obs['err'].get('t')
            new = None if err else state_after(obs, end)
            out = ('err:' + err) if err else ('->%d/%d' % (len(new[0]), new[1]) if new else 'no-boundary')
            outcomes[out] = outcomes.get(out, 0) + 1
            key = (st, li)
            if hi == 0:
                first[key] = (seg, err, new)
                if not err:
                    for clause, detail in invariants(hist + line + SENTINEL, obs, False):
                        r.fails.append(C.Fail(PROP, 'default · tiling · ' + clause, 'lex', {'mode': 'exec', 'text': hist + line + SENTINEL}, {'detail': detail}, None))
                        break
                if new is not None and len(new[0]) <= M_MAX_STACK and new[1] <= M_MAX_NEST:
                    if new not in reps:
                        reps[new] = [hist + line]
                        nxt.append(new)
                    elif len(reps[new]) < 2 and hist + line not in reps[new]:
                        reps[new].append(hist + line)
            else:
                if first.get(key) != (seg, err, new):
                    r.fails.append(C.Fail(PROP, 'line machine · two histories with the same canonical state behave differently (hidden lexer state)', 'lexm',
                                          {'state': repr(st), 'history_a': reps[st][0], 'history_b': hist, 'line': line}, {'a': repr(first.get(key))[:300], 'b': repr((seg, err, new))[:300]}, None))
        frontier = nxt
    r.states = len(reps)
    r.validated = r.transitions
    for k, v in outcomes.items():
        r.outcomes['machine:' + k] += v
    r.by_bound['line machine: %d line templates, stack<=%d, nesting<=%d' % (len(lines), M_MAX_STACK, M_MAX_NEST)] = r.transitions
    r.extra['line_machine'] = {'states': len(reps), 'transitions': r.transitions, 'bfs_depth': depth, 'closed': not frontier}
    r.samples.append({'state': repr(sorted(reps)[len(reps) // 2]), 'history': reps[sorted(reps)[len(reps) // 2]][0]})
    if frontier:
        r.caps_hit.append('line machine: BFS depth cap 12 reached with a non-empty frontier')
    return r


CHAR_SIGMA = R.CHAR_SIGMA + ['\x0c', '0', 'e', 'x', '-', '*', '<', '>', 'b', 'f', 'r', 'j']


def run(tier, seed):
    t0 = time.time()
    d = K.DEPTH['quick']
    jobs = [('machine', tier)]
    n = 3 if tier == 'quick' else 4
    jobs += [('chars', n, s, CHAR_SIGMA) for s in X.prefix_shards(CHAR_SIGMA, n, 1 if tier == 'quick' else 2)]
    core = ['a', '1', '.', '(', ')', ':', '=', "'", '\\', '#', ' ', '\t', '\n', '\r', 'é']
    nc = 5 if tier == 'quick' else 6
    jobs += [('chars', nc, s, core) for s in X.prefix_shards(core, nc, 2)]
    ll = 4 if tier == 'quick' else 5
    jobs += [('chars', ll, s, R.LAYOUT_LEX) for s in X.prefix_shards(R.LAYOUT_LEX, ll, 1 if tier == 'quick' else 2)]
    jobs += [('dense', 64 if tier == 'quick' else 160, k) for k in range(8)]
    jobs += [('bignum', tier, k) for k in range(4)]
    nl = 2 if tier == 'quick' else 3
    jobs += [('lexemes', nl, s) for s in X.prefix_shards(LEXEMES, nl, 1)]
    jobs += [('corpus', g, d) for g in K.group_shards(K.shards_for(d, 'file'), 64)]
    total = C.Result()
    allh = set()
    mstates = 0
    for r in C.pmap(run_shard, jobs):
        allh |= r.extra.pop('_hashes', set())
        if 'line_machine' in r.extra:
            mstates = r.states
        r.states = 0
        total.merge(r)
    total.states = len(allh) + mstates
    total.nontrivial = total.validated
    rule = ('texts: every string of length<=%d over the %d-character alphabet %r and of length<=%d over the 15-character core; every sequence of <=%d lexemes out of %d (all operator and '
            'delimiter spellings, keywords, names, numbers, strings, whitespace kinds); every G_ref sentence with <=2 non-default alternatives under 5 layouts in three modes; each lexed by the '
            'default and the full-lexer build; plus the explicit-state search of the lexer line machine (states (indentation stack, nesting) read through hook H1, 240 line templates, BFS with de-duplication and a second history per state to assert the abstraction); states = distinct texts + machine states, transitions = tokens checked + machine transitions; non-trivial = lexes without error and agrees with the reference tokenizer'
            % (n, len(CHAR_SIGMA), ''.join(CHAR_SIGMA), nc, nl, len(LEXEMES)))
    return C.finish(PROP, tier, seed, t0, total, rule,
                    ['reference-free tiling invariants are computed from (Tok, range) and the text',
                     "CPython 3.11's C tokenizer (_tokenize.TokenizerIter) for NAME/NUMBER/STRING/operator kinds, texts and byte ranges; layout tokens are not compared with it (it reports NEWLINE at "
                     'the comment, gives INDENT/DEDENT no columns); texts with NUL or form feed have no reference'], C.py_version())


def replay(path):
    case = json.load(open(path))['case']
    inp = case['input']
    cfg = case['signature'].split(' · ')[0]
    outs = []
    for _ in range(2):
        obs = C.run_worker(['lex\t%s\t%s' % (inp['mode'], C.hx(inp['text']))], cfg=cfg)[0]
        outs.append((obs, judge(inp['text'], inp['mode'], obs, cfg == 'full-lexer')))
    if json.dumps(outs[0][0], sort_keys=True) != json.dumps(outs[1][0], sort_keys=True):
        raise C.Machinery('replay is not deterministic')
    out, fails = outs[0][1]
    sigs = ['%s · %s' % (cfg, s) for s, _ in fails]
    print('replay %r: %s %s' % (inp['text'], out, sigs))
    if case['signature'] in sigs:
        print('VIOLATION property=%s replay=%s' % (PROP, path))
        return 1
    return 0
