"""C05 — the token stream tiles the source: nothing dropped, nothing misplaced.
Texts: all character strings up to the bound, all lexeme pairs/triples, the G_ref corpus under layouts; both lexer configurations,
three modes. Oracles: reference-free tiling invariants computed from (Tok, range) and the text, and agreement with CPython's C tokenizer
(_tokenize.TokenizerIter) on NAME / NUMBER / STRING / operator tokens."""
import time, json, re, itertools, _tokenize, token as pytoken
from .. import common as C, gref, corpus as K, explore as X, relcheck as R
from . import c01, c02

PROP = 'C05'
CONFIGS = ('default', 'full-lexer')

SPELL = {
    'Lpar': '(', 'Rpar': ')', 'Lsqb': '[', 'Rsqb': ']', 'Colon': ':', 'Comma': ',', 'Semi': ';', 'Plus': '+', 'Minus': '-', 'Star': '*', 'Slash': '/', 'Vbar': '|',
    'Amper': '&', 'Less': '<', 'Greater': '>', 'Equal': '=', 'Dot': '.', 'Percent': '%', 'Lbrace': '{', 'Rbrace': '}', 'EqEqual': '==', 'NotEqual': '!=',
    'LessEqual': '<=', 'GreaterEqual': '>=', 'Tilde': '~', 'CircumFlex': '^', 'LeftShift': '<<', 'RightShift': '>>', 'DoubleStar': '**', 'DoubleStarEqual': '**=',
    'PlusEqual': '+=', 'MinusEqual': '-=', 'StarEqual': '*=', 'SlashEqual': '/=', 'PercentEqual': '%=', 'AmperEqual': '&=', 'VbarEqual': '|=', 'CircumflexEqual': '^=',
    'LeftShiftEqual': '<<=', 'RightShiftEqual': '>>=', 'DoubleSlash': '//', 'DoubleSlashEqual': '//=', 'At': '@', 'AtEqual': '@=', 'Rarrow': '->', 'Ellipsis': '...',
    'ColonEqual': ':=',
}
KEYWORD = {k: k.lower() for k in ['And', 'As', 'Assert', 'Async', 'Await', 'Break', 'Class', 'Continue', 'Def', 'Del', 'Elif', 'Else', 'Except', 'Finally', 'For', 'From',
                                  'Global', 'If', 'Import', 'In', 'Is', 'Lambda', 'Nonlocal', 'Not', 'Or', 'Pass', 'Raise', 'Return', 'Try', 'While', 'Match', 'Type',
                                  'Case', 'With', 'Yield']}
KEYWORD.update({'False': 'False', 'None': 'None', 'True': 'True'})
LAYOUT_TOKS = {'Newline', 'Indent', 'Dedent', 'NonLogicalNewline', 'Comment'}
PREFIX = {'String': [''], 'Unicode': ['u'], 'FString': ['f'], 'Bytes': ['b'], 'RawString': ['r'], 'RawFString': ['rf', 'fr'], 'RawBytes': ['rb', 'br']}
GAP_DEFAULT = re.compile(r'(?:[ \t\x0c]|#[^\r\n]*|\\(?:\r\n|\r|\n)|\r\n|\r|\n)*\Z')
GAP_FULL = re.compile(r'(?:[ \t\x0c]|\\(?:\r\n|\r|\n))*\Z')
LEXEMES = list(SPELL.values()) + ['!', 'if', 'not', 'in', 'is', 'lambda', 'match', 'case', 'type', 'a', '_x', 'é', '1', '0x1f', '1.5', '1e3', '2j', '0', '00', '1_0', "'s'", '"t"', "b'x'",
                                   "rb'\\d'", "f'{a}'", "'''m'''", ' ', '\t', '\n', '\\\n', '# c\n', '\r\n']


def num_value(text):
    t = text.replace('_', '')
    if t[-1:] in 'jJ':
        return ('complex', complex(t))
    try:
        return ('int', int(t, 0))
    except ValueError:
        return ('float', float(t))


def invariants(text, obs, full):
    """-> list of (clause, detail)"""
    out = []
    data = text.encode('utf-8')
    n = len(data)
    toks = obs['toks']
    prev_end = 0
    depth = 0
    indents = 0
    last_sig = 'Newline'   # what precedes: start of input counts as a line start
    gap_re = GAP_FULL if full else GAP_DEFAULT

    def boundary(o):
        return o == 0 or o == n or (data[o] & 0xC0) != 0x80

    for tok, a, b in toks:
        name = tok['t']
        if not (0 <= a <= b <= n):
            out.append(('range outside the input', '%s %d..%d len=%d' % (name, a, b, n)))
            return out
        if not (boundary(a) and boundary(b)):
            out.append(('range not on a character boundary', '%s %d..%d' % (name, a, b)))
            return out
        if a < prev_end:
            out.append(('ranges overlap or go backwards', '%s %d..%d after end %d' % (name, a, b, prev_end)))
            return out
        gap = data[prev_end:a].decode('utf-8')
        if prev_end == 0 and gap.startswith('\ufeff'):
            gap = gap[1:]  # a leading BOM belongs to no token
        if not gap_re.match(gap):
            out.append(('text between tokens is not only whitespace/comments/line joins', repr(gap)))
        sl = data[a:b].decode('utf-8')
        if name == 'Name':
            if tok['f']['name'] != sl:
                out.append(('a name token does not spell its text', '%r vs %r' % (tok['f']['name'], sl)))
        elif name in SPELL:
            if SPELL[name] != sl:
                out.append(('an operator token does not spell its text', '%s over %r' % (name, sl)))
            if name in ('Lpar', 'Lsqb', 'Lbrace'):
                depth += 1
            elif name in ('Rpar', 'Rsqb', 'Rbrace'):
                depth -= 1
        elif name in KEYWORD:
            if KEYWORD[name] != sl:
                out.append(('a keyword token does not spell its text', '%s over %r' % (name, sl)))
        elif name in ('Int', 'Float', 'Complex'):
            try:
                kind, val = num_value(sl)
                f = tok['f']
                if name == 'Int':
                    ok = kind == 'int' and int(f['value']['n']) == val
                elif name == 'Float':
                    fv = f['value']
                    got = float(fv['n']) if 'n' in fv else float(fv['t'].lower())
                    ok = kind in ('float', 'int') and got == float(val) and kind == 'float'
                else:
                    def fl(x):
                        return float(x['n']) if 'n' in x else float(x['t'].lower())
                    ok = kind == 'complex' and complex(fl(f['real']), fl(f['imag'])) == val
            except (ValueError, OverflowError):
                ok = False
            if not ok:
                out.append(('a number token does not carry the value of its digits', '%s %s over %r' % (name, json.dumps(tok.get('f')), sl)))
        elif name == 'String':
            f = tok['f']
            kind = f['kind']['t']
            triple = f['triple_quoted']['t'] == 'true'
            m = re.match(r'([A-Za-z]{0,2})(\'\'\'|"""|\'|")', sl)
            ok = bool(m)
            if m:
                pre, q = m.group(1).lower(), m.group(2)
                ok = pre in PREFIX.get(kind, []) and (len(q) == 3) == triple and sl.endswith(q) and len(sl) >= len(pre) + 2 * len(q)
                if ok:
                    body = sl[len(pre) + len(q):len(sl) - len(q)]
                    # the token's value is the body with line breaks normalised to LF (triple-quoted text, backslash-newline joins)
                    body = body.replace('\r\n', '\n').replace('\r', '\n')
                    ok = body == f['value']
            if not ok:
                out.append(('a string token does not cover prefix, quotes and body', '%s over %r' % (json.dumps(f, ensure_ascii=False), sl)))
        elif name == 'Newline':
            if depth > 0:
                out.append(('NEWLINE inside brackets', '%d..%d depth %d' % (a, b, depth)))
            if sl not in ('\n', '\r', '\r\n', ''):
                out.append(('NEWLINE token does not cover a line break', repr(sl)))
        elif name == 'Indent':
            indents += 1
            if last_sig != 'Newline':
                out.append(('INDENT not at the start of a logical line', 'after %s' % last_sig))
        elif name == 'Dedent':
            indents -= 1
            if last_sig not in ('Newline', 'Dedent'):
                out.append(('DEDENT not at the start of a logical line', 'after %s' % last_sig))
            if indents < 0:
                out.append(('DEDENT without a matching INDENT', ''))
        elif name == 'Comment':
            if not full:
                out.append(('Comment token without the full-lexer feature', ''))
            if tok['a'][0] != sl or not sl.startswith('#') or '\n' in sl or '\r' in sl:
                out.append(('a comment token does not carry its exact text', '%r over %r' % (tok['a'][0], sl)))
        elif name == 'NonLogicalNewline':
            if not full:
                out.append(('NonLogicalNewline token without the full-lexer feature', ''))
            if sl not in ('\n', '\r', '\r\n'):
                out.append(('a non-logical newline token does not cover a line break', repr(sl)))
        else:
            out.append(('unknown token kind', name))
        if name not in ('Comment', 'NonLogicalNewline'):
            last_sig = name
        prev_end = b
    if 'err' not in obs:
        gap = data[prev_end:].decode('utf-8')
        if prev_end == 0 and gap.startswith('\ufeff'):
            gap = gap[1:]
        if not gap_re.match(gap):
            out.append(('text after the last token is not only whitespace/comments/line joins', repr(gap)))
        if indents != 0:
            out.append(('INDENT without a matching DEDENT before the end of input', 'balance %d' % indents))
    return out


def significant(obs, data):
    """(category, text, start, end) of NAME / NUMBER / STRING / OP tokens of the Rust stream"""
    out = []
    for tok, a, b in obs['toks']:
        name = tok['t']
        if name in LAYOUT_TOKS:
            continue
        cat = 'NAME' if (name == 'Name' or name in KEYWORD) else ('NUMBER' if name in ('Int', 'Float', 'Complex') else ('STRING' if name == 'String' else 'OP'))
        txt = data[a:b].decode('utf-8', 'replace')
        if cat == 'STRING':
            txt = txt.replace('\r\n', '\n').replace('\r', '\n')  # the reference tokenizer sees universal-newline-translated text
        out.append((cat, txt, a, b))
    return out


def cpython_tokens(text, data):
    """-> (list of (category, text, start, end), complete?) from the C tokenizer; None if it cannot be consulted"""
    starts = c02.line_starts(data)
    out = []
    complete = True
    try:
        for t in _tokenize.TokenizerIter(text):
            s, ty, l1, l2, c1, c2 = t[:6]
            if ty in (pytoken.NEWLINE, pytoken.INDENT, pytoken.DEDENT, pytoken.ENDMARKER, pytoken.NL, pytoken.COMMENT):
                continue
            if ty == pytoken.ERRORTOKEN or c1 < 0:
                complete = False
                break
            cat = {pytoken.NAME: 'NAME', pytoken.NUMBER: 'NUMBER', pytoken.STRING: 'STRING', pytoken.ASYNC: 'NAME', pytoken.AWAIT: 'NAME'}.get(ty, 'OP')
            if l1 - 1 >= len(starts) or l2 - 1 >= len(starts):
                complete = False
                break
            a, b = starts[l1 - 1] + c1, starts[l2 - 1] + c2
            if cat == 'OP' and s == '<>':
                # the C tokenizer knows the PEP 401 joke operator (the grammar then rejects it): no reference from here on
                complete = False
                break
            out.append((cat, s, a, b))
    except (SyntaxError, ValueError, IndexError, UnicodeError):
        complete = False
    return out, complete


BACKSLASH_LINE = re.compile(r'(^|\n|\r)[ \t\x0c]*\\(\r\n|\r|\n)')


def judge(text, mode, obs, full):
    """-> (outcome, [(sig, detail)])"""
    if K.is_bad(obs) or 'runaway' in obs:
        return 'bad', [('lex · obs=%s' % (K.bad_kind(obs) if K.is_bad(obs) else 'token stream does not end'), '')]
    fails = []
    seen = set()
    for clause, detail in invariants(text, obs, full):
        if clause not in seen:
            seen.add(clause)
            fails.append(('tiling · ' + clause, detail))
    if 'err' in obs:
        # the property quantifies over inputs that lex without error; the prefix invariants above were still checked
        return ('lex-error' if not fails else 'lex-error+FAIL'), fails
    data = text.encode('utf-8')
    if '\x00' in text or '\x0c' in text:
        return ('ok(no reference: NUL/FF)' if not fails else 'FAIL'), fails
    ref, complete = cpython_tokens(text, data)
    got = significant(obs, data)
    k = len(ref)
    if got[:k] != ref[:len(got[:k])] or (complete and len(got) != len(ref)) or len(got) < k:
        # first difference
        i = 0
        while i < min(len(got), len(ref)) and got[i] == ref[i]:
            i += 1
        g = got[i] if i < len(got) else None
        r = ref[i] if i < len(ref) else None
        fails.append(('reference tokenizer · %s vs %s' % ('%s' % (g[0] if g else 'end'), '%s' % (r[0] if r else 'end')), 'rust %r cpython %r' % (g, r)))
    return ('agree' if not fails else 'FAIL'), fails


def run_shard(args):
    kind = args[0]
    if kind == 'chars':
        _, n, shard, sigma = args
        texts = [(t, 'chars len=%d' % l) for t, l in X.shard_strings(sigma, n, shard)]
        modes = ('exec',)
    elif kind == 'lexemes':
        _, n, shard = args
        texts = []
        for t, l in X.shard_strings(LEXEMES, n, shard):
            texts.append((t, 'lexemes n=%d' % l))
        modes = ('exec',)
    else:
        _, paths, d = args
        texts = [(t, '%s cost=%d' % (ln, c)) for t, c, ln in R.corpus_texts(paths, d, 'file', ['plain', 'comments-crlf-tab', 'spread-comments', 'cr', 'bom'])]
        modes = ('exec', 'single', 'eval')
    r = C.Result()
    for chunk in (texts[i:i + 4000] for i in range(0, len(texts), 4000)):
        for cfg in CONFIGS:
            for mode in modes:
                res = C.run_worker(['lex\t%s\t%s' % (mode, C.hx(t)) for t, _ in chunk], cfg=cfg)
                for (text, tag), obs in zip(chunk, res):
                    out, fails = judge(text, mode, obs, cfg == 'full-lexer')
                    r.evaluations += 1
                    r.outcomes['%s:%s' % (cfg, out)] += 1
                    if cfg == 'default' and mode == 'exec':
                        r.by_bound[tag] += 1
                    if 'toks' in obs:
                        r.transitions += len(obs['toks'])
                    if out == 'agree':
                        r.validated += 1
                    for sig, detail in fails:
                        r.fails.append(C.Fail(PROP, '%s · %s' % (cfg, sig), 'lex', {'mode': mode, 'text': text}, {'detail': detail}, None))
    r.extra['_hashes'] = {c01.h64(t) for t, _ in texts}
    if texts:
        r.samples.append(texts[len(texts) // 2][0])
    return r


CHAR_SIGMA = R.CHAR_SIGMA + ['\x0c', '0', 'e', 'x', '-', '*', '<', '>', 'b', 'f', 'r', 'j']


def run(tier, seed):
    t0 = time.time()
    d = K.DEPTH['quick']
    jobs = []
    n = 3 if tier == 'quick' else 4
    jobs += [('chars', n, s, CHAR_SIGMA) for s in X.prefix_shards(CHAR_SIGMA, n, 1 if tier == 'quick' else 2)]
    core = ['a', '1', '.', '(', ')', ':', '=', "'", '\\', '#', ' ', '\t', '\n', '\r', 'é']
    nc = 5 if tier == 'quick' else 6
    jobs += [('chars', nc, s, core) for s in X.prefix_shards(core, nc, 2)]
    nl = 2 if tier == 'quick' else 3
    jobs += [('lexemes', nl, s) for s in X.prefix_shards(LEXEMES, nl, 1)]
    jobs += [('corpus', g, d) for g in K.group_shards(K.shards_for(d, 'file'), 64)]
    total = C.Result()
    allh = set()
    for r in C.pmap(run_shard, jobs):
        allh |= r.extra.pop('_hashes', set())
        total.merge(r)
    total.states = len(allh)
    total.nontrivial = total.validated
    rule = ('texts: every string of length<=%d over the %d-character alphabet %r and of length<=%d over the 15-character core; every sequence of <=%d lexemes out of %d (all operator and '
            'delimiter spellings, keywords, names, numbers, strings, whitespace kinds); every G_ref sentence with <=2 non-default alternatives under 5 layouts in three modes; each lexed by the '
            'default and the full-lexer build; states = distinct texts, transitions = tokens checked; non-trivial = lexes without error and agrees with the reference tokenizer'
            % (n, len(CHAR_SIGMA), ''.join(CHAR_SIGMA), nc, nl, len(LEXEMES)))
    return C.finish(PROP, tier, seed, t0, total, rule,
                    ['reference-free tiling invariants are computed from (Tok, range) and the text',
                     "CPython 3.11's C tokenizer (_tokenize.TokenizerIter) for NAME/NUMBER/STRING/operator kinds, texts and byte ranges; layout tokens are not compared with it (it reports NEWLINE at "
                     'the comment, gives INDENT/DEDENT no columns); texts with NUL or form feed have no reference'], C.py_version())


def replay(path):
    case = json.load(open(path))['case']
    inp = case['input']
    cfg = case['signature'].split(' · ')[0]
    outs = []
    for _ in range(2):
        obs = C.run_worker(['lex\t%s\t%s' % (inp['mode'], C.hx(inp['text']))], cfg=cfg)[0]
        outs.append((obs, judge(inp['text'], inp['mode'], obs, cfg == 'full-lexer')))
    if json.dumps(outs[0][0], sort_keys=True) != json.dumps(outs[1][0], sort_keys=True):
        raise C.Machinery('replay is not deterministic')
    out, fails = outs[0][1]
    sigs = ['%s · %s' % (cfg, s) for s, _ in fails]
    print('replay %r: %s %s' % (inp['text'], out, sigs))
    if case['signature'] in sigs:
        print('VIOLATION property=%s replay=%s' % (PROP, path))
        return 1
    return 0
