"""C20 — str.format templates split into the same fields as Python's.
E-STR: every template / field-name string over the alphabet up to the bound, real FormatString::from_str /
FieldName::parse vs CPython's _string.formatter_parser / formatter_field_name_split."""
import time, json, _string, functools
from .. import common as C, explore as X

PROP = 'C20'
TEMPLATE_SIGMA = ['{', '}', '[', ']', '!', ':', '.', '0', 'a', 'é']
FIELD_SIGMA = ['.', '[', ']', '0', '1', 'a', 'é', '-', ' ', '+']
BOUNDS = {'quick': (6, 6), 'thorough': (8, 8)}


def ref_template(t):
    try:
        parts = []
        for lit, name, spec, conv in _string.formatter_parser(t):
            if lit:
                if parts and parts[-1][0] == 'lit':
                    parts[-1] = ('lit', parts[-1][1] + lit)
                else:
                    parts.append(('lit', lit))
            if name is not None:
                parts.append(('field', name, conv, spec))
        return ('ok', tuple(parts))
    except ValueError as e:
        return ('err', str(e))


def obs_template(v):
    if 'panic' in v or 'crash' in v or 'hang' in v:
        return ('panic', json.dumps(C.norm_obs(v), sort_keys=True))
    if 'err' in v:
        return ('err', v['err'].get('t'))
    parts = []
    for p in v['ok']['f']['format_parts']:
        if p['t'] == 'Literal':
            lit = p['a'][0]
            if parts and parts[-1][0] == 'lit':
                parts[-1] = ('lit', parts[-1][1] + lit)
            else:
                parts.append(('lit', lit))
        else:
            f = p['f']
            cs = f['conversion_spec']
            conv = None if cs.get('t') == 'None' else cs['a'][0]['c']
            parts.append(('field', f['field_name'], conv, f['format_spec']))
    return ('ok', tuple(parts))


def ref_field(t):
    try:
        first, it = _string.formatter_field_name_split(t)
        rest = tuple(('attr', k) if is_attr else (('idx', k) if isinstance(k, int) else ('sidx', k)) for is_attr, k in it)
        head = ('auto',) if first == '' else (('index', first) if isinstance(first, int) else ('kw', first))
        return ('ok', head, rest)
    except ValueError as e:
        return ('err', str(e))


def obs_field(v):
    if 'panic' in v or 'crash' in v or 'hang' in v:
        return ('panic', json.dumps(C.norm_obs(v), sort_keys=True))
    if 'err' in v:
        return ('err', v['err'].get('t'))
    f = v['ok']['f']
    ft = f['field_type']
    head = ('auto',) if ft['t'] == 'Auto' else (('index', int(ft['a'][0]['n'])) if ft['t'] == 'Index' else ('kw', ft['a'][0]))
    rest = []
    for p in f['parts']:
        if p['t'] == 'Attribute':
            rest.append(('attr', p['a'][0]))
        elif p['t'] == 'Index':
            rest.append(('idx', int(p['a'][0]['n'])))
        else:
            rest.append(('sidx', p['a'][0]))
    return ('ok', head, tuple(rest))


def judge(kind, text, v):
    """-> (outcome label, Fail or None)"""
    if kind == 'template':
        ref, obs = ref_template(text), obs_template(v)
    else:
        ref, obs = ref_field(text), obs_field(v)
    if obs[0] == 'panic':
        return 'panic', C.Fail(PROP, '%s · obs=panic' % kind, kind, text, v, ref)
    if ref[0] == 'err':
        if obs[0] == 'err':
            return 'both-reject', None
        return 'over-accept', C.Fail(PROP, '%s · ref=reject · obs=accept' % kind, kind, text, v, ref)
    if obs[0] == 'err':
        return 'over-reject', C.Fail(PROP, '%s · ref=accept · obs=reject(%s)' % (kind, obs[1]), kind, text, v, ref)
    if ref == obs:
        return 'equal', None
    return 'differ', C.Fail(PROP, '%s · ref=accept · obs=accept · parts differ' % kind, kind, text, v, [list(map(str, ref[1:]))])


def long_digit_cases():
    """digit runs around and beyond the width of usize/u64 as automatic-numbering heads and as [index] accessors, zero-padded or not"""
    runs = []
    for l in list(range(1, 26)) + [30, 40, 64, 100]:
        for body in ('0' * l, '0' * (l - 1) + '1', '1' + '0' * (l - 1), '9' * l, '18446744073709551615'[:l].rjust(l, '0'), '18446744073709551616'[:l].rjust(l, '0')):
            runs.append(body)
    runs = sorted(set(runs))
    fields = [r for r in runs] + ['a[%s]' % r for r in runs] + ['%s.a' % r for r in runs] + ['a[%s].b[%s]' % (r, r) for r in runs[:40]]
    templates = ['{%s}' % f for f in fields] + ['x{%s!r:>{w}}y' % r for r in runs]
    return fields, templates


def run_shard(args):
    kind, sigma, n, shard = args
    op = 'fmtstr' if kind == 'template' else 'fieldname'
    if sigma is None:
        strings = [(t, len(t)) for t in shard]
        gen = [strings]
    else:
        gen = X.chunks(X.shard_strings(sigma, n, shard), 20000)
    r = C.Result()
    for chunk in gen:
        res = C.run_worker([op + '\t' + C.hx(t) for t, _ in chunk])
        for (t, l), v in zip(chunk, res):
            out, fail = judge(kind, t, v)
            r.evaluations += 1
            r.by_bound[('%s len=%d' % (kind, l)) if sigma is not None else kind + ' long digit runs'] += 1
            r.outcomes[kind + ':' + out] += 1
            nontriv = ('{' in t or '}' in t) if kind == 'template' else any(c in t for c in '.[]')
            if nontriv:
                r.nontrivial += 1
                if len(r.samples) < 2 and l >= 4 and out == 'equal':
                    r.samples.append(t)
            if fail is not None and len(r.fails) < C.MAX_FAILS_PER_SHARD:
                r.fails.append(fail)
    r.states = r.evaluations
    r.transitions = r.evaluations
    r.validated = r.evaluations
    return r


def run(tier, seed):
    t0 = time.time()
    nt, nf = BOUNDS[tier]
    shards = [('template', TEMPLATE_SIGMA, nt, s) for s in X.prefix_shards(TEMPLATE_SIGMA, nt)]
    shards += [('field', FIELD_SIGMA, nf, s) for s in X.prefix_shards(FIELD_SIGMA, nf)]
    lf, lt = long_digit_cases()
    shards += [('field', None, 0, lf), ('template', None, 0, lt)]
    total = C.Result()
    for r in C.pmap(run_shard, shards):
        total.merge(r)
    expect = X.count_strings(TEMPLATE_SIGMA, nt) + X.count_strings(FIELD_SIGMA, nf) + len(lf) + len(lt)
    if total.evaluations != expect:
        raise C.Machinery('enumeration incomplete: %d of %d' % (total.evaluations, expect))
    rule = ('every string over %s of length<=%d through FormatString::from_str vs _string.formatter_parser, and every string over %s '
            'of length<=%d through FieldName::parse vs _string.formatter_field_name_split; distinct = distinct input text; '
            'plus digit runs of 1..25, 30, 40, 64 and 100 digits (zero padded, 2^64-1, 2^64) as heads and [index] accessors; non-trivial = template containing a brace / field name containing an accessor character; '
            'states = inputs, transitions = real-code executions' % (''.join(TEMPLATE_SIGMA), nt, ''.join(FIELD_SIGMA), nf))
    return C.finish(PROP, tier, seed, t0, total, rule,
                    ['CPython 3.11 _string.formatter_parser / formatter_field_name_split define the reference', 'derive(Debug) is faithful'],
                    C.py_version())


def replay(path):
    case = json.load(open(path))['case']
    kind, text = case['op'], case['input']
    op = 'fmtstr' if kind == 'template' else 'fieldname'
    outs = []
    for _ in range(2):
        v = C.run_worker([op + '\t' + C.hx(text)])[0]
        outs.append((v, judge(kind, text, v)))
    if json.dumps(outs[0][0], sort_keys=True) != json.dumps(outs[1][0], sort_keys=True):
        raise C.Machinery('replay is not deterministic')
    out, fail = outs[0][1]
    print('replay %s %r -> %s' % (kind, text, out))
    if fail is not None:
        print('VIOLATION property=%s replay=%s' % (PROP, path))
        return 1
    return 0
