"""C17 — float text conversions round-trip and match Python's.
E-PROD over a boundary-complete set V of doubles x precisions x cases x flags, and E-STR over the float()/fromhex
input alphabets; real rustpython_literal::float functions vs CPython's repr/float/float.hex/fromhex/%-formatting."""
import time, json, struct, math, re, itertools
from .. import common as C, explore as X

PROP = 'C17'


def bits(x):
    return struct.unpack('<Q', struct.pack('<d', x))[0]


def frombits(b):
    return struct.unpack('<d', struct.pack('<Q', b & 0xFFFFFFFFFFFFFFFF))[0]


def nbrs(x, k=1):
    b = bits(x)
    out = [x]
    for d in range(1, k + 1):
        for bb in (b + d, b - d):
            if 0 <= bb < 0x7ff0000000000000:
                out.append(frombits(bb))
    return out


def value_set(tier):
    quick = tier == 'quick'
    V = []
    add = V.append
    for x in (0.0, -0.0, float('inf'), float('-inf'), float('nan'), 5e-324, 2.2250738585072014e-308, 2.225073858507201e-308,
              1.7976931348623157e308, 0.1, 0.2, 0.3, 1 / 3, 2 / 3, 1e22, 1e23, 9007199254740992.0, 9007199254740993.0, 0.9999999999999999,
              1.0000000000000002, 123456789.0, 1234.5678, 1e-7, 1e16, 9999999999999998.0, 99999.99999999999, 1e-5, 0.0001, 0.00001234):
        add(x)
    for k in range(-323, 309, 1 if not quick else 1):
        try:
            x = float('1e%d' % k)
        except OverflowError:
            continue
        for y in nbrs(x, 1 if quick else 2):
            add(y)
    for n in range(0, 129 if quick else 2049):
        add(float(n))
    for e in range(-1074, 1024, 7 if quick else 1):
        x = math.ldexp(1.0, e)
        for y in nbrs(x, 1):
            add(y)
    for n in list(range(1, 21)) + [1e15, 1e16, 1e17, 1e21, 1e22]:
        for y in nbrs(float(n), 1):
            add(y)
    # x.5 ties at 0..20 decimals and 9.99…5 carries
    for d in range(0, 21 if not quick else 12):
        for lead in ('0', '1', '2', '9', '12', '99'):
            for s in ('%s.%s5' % (lead, '0' * d), '%s.%s5' % (lead, '9' * d), '%s.%s25' % (lead, '1' * d), '%s.%s15' % (lead, '0' * d)):
                add(float(s))
    ms = range(1, 1000) if not quick else list(range(1, 30)) + [99, 100, 101, 125, 250, 375, 500, 625, 875, 995, 999]
    es = range(-30, 31) if not quick else range(-30, 31, 3)
    for m in ms:
        for e in es:
            add(float('%de%d' % (m, e)))
    seen = set()
    out = []
    for x in V:
        for y in (x, -x):
            b = bits(y) if y == y else 0x7ff8000000000000
            if b not in seen:
                seen.add(b)
                out.append(y)
    return out


def shape(t):
    m = re.fullmatch(r'(-?)(\d+)(\.\d+)?(?:e([+-]?)(\d+))?', t)
    if not m:
        return 'special:' + t
    sign, ip, fp, es, ed = m.groups()
    return '%sD%s%s' % (sign, '.D' if fp else '', '' if ed is None else 'e%s%d' % (es, len(ed)))


def sigdigits(t):
    mant = t.split('e')[0].lstrip('-').replace('.', '')
    mant = mant.lstrip('0').rstrip('0')
    return len(mant)


def judge_repr(x, got):
    ref = repr(x)
    if not isinstance(got, str):
        return 'to_string · obs=panic/crash'
    if x != x or x in (float('inf'), float('-inf')):
        return None if got == ref else 'to_string · special value text differs'
    try:
        back = float(got)
    except ValueError:
        return 'to_string · not parseable by float()'
    if bits(back) != bits(x):
        return 'to_string · does not round-trip'
    if sigdigits(got) != sigdigits(ref):
        return 'to_string · not a shortest rendering'
    if shape(got) != shape(ref):
        return 'to_string · shape differs from Python repr'
    return None


SPECIAL_WORDS = ['inf', 'infinity', 'nan']


def special_strings():
    out = set()
    for w in SPECIAL_WORDS:
        # every case variant
        for mask in range(1 << len(w)):
            v = ''.join(c.upper() if mask >> i & 1 else c for i, c in enumerate(w))
            out.add(v)
        for v in (w, w.upper(), w.capitalize()):
            for sign in ('', '+', '-', '++', '+-'):
                for pre in ('', ' ', '\t', '\n', '_'):
                    for post in ('', ' ', '\n', 'x', '_', '0'):
                        out.add(pre + sign + v + post)
            # one-edit neighbours
            for i in range(len(v) + 1):
                out.add(v[:i] + v[i + 1:])
                for c in 'ainf_ 0':
                    out.add(v[:i] + c + v[i:])
    return sorted(out)


def py_float(s):
    try:
        return float(s)
    except (ValueError, OverflowError):
        return None


def py_fromhex(s):
    try:
        return float.fromhex(s)
    except (ValueError, OverflowError):
        return None


def same_float(got, ref):
    """got: {'bits':hex} or None; ref: float or None"""
    if ref is None:
        return got is None
    if got is None:
        return False
    g = frombits(int(got['bits'], 16))
    if ref != ref:
        return g != g
    return bits(g) == bits(ref)


def run_job(job):
    kind = job[0]
    r = C.Result()

    def fail(sig, op, inp, obs, ref):
        r.fails.append(C.Fail(PROP, sig, op, inp, obs, ref))

    if kind == 'repr':
        xs = job[1]
        res = C.run_worker(['frepr\t%016x' % bits(x) for x in xs] + ['fhex\t%016x' % bits(x) for x in xs])
        n = len(xs)
        for i, x in enumerate(xs):
            sig = judge_repr(x, res[i])
            r.evaluations += 2
            r.outcomes['repr:' + (shape(res[i]) if isinstance(res[i], str) else 'panic')] += 1
            if sig:
                fail(sig, 'frepr', '%016x' % bits(x), res[i], repr(x))
            hx_ref = x.hex() if x == x and abs(x) != float('inf') else repr(x)
            if res[n + i] != hx_ref:
                fail('to_hex · differs from float.hex()', 'fhex', '%016x' % bits(x), res[n + i], hx_ref)
            elif x == x and abs(x) != float('inf'):
                pass
        # from_hex(to_hex(x)) round trip through the real code
        hs = [res[n + i] for i in range(n)]
        back = C.run_worker(['ffromhex\t' + C.hx(h) for h in hs if isinstance(h, str)])
        j = 0
        for i, x in enumerate(xs):
            if not isinstance(hs[i], str):
                continue
            b = back[j]
            j += 1
            r.evaluations += 1
            if not same_float(b, x):
                fail('from_hex(to_hex(x)) != x', 'ffromhex', hs[i], b, '%016x' % bits(x))
        r.nontrivial += n
        r.samples.append({'x': repr(xs[len(xs) // 2]), 'to_string': res[len(xs) // 2]})
    elif kind == 'fmt':
        xs, precs = job[1], job[2]
        reqs = []
        for x in xs:
            ax = abs(x)
            for k in 'feg':
                for p in precs:
                    for case in 'LU':
                        for alt in (0, 1):
                            reqs.append((ax, k, p, case, alt))
        # general format: callers (format.rs, cformat.rs) map precision 0 to 1 exactly as C's %g does, so the function is driven that way
        res = C.run_worker(['ffmt\t%s\t%d\t%016x\t%s\t%d' % (k, (p or 1) if k == 'g' else p, bits(ax), case, alt) for ax, k, p, case, alt in reqs])
        for (ax, k, p, case, alt), got in zip(reqs, res):
            conv = k.upper() if case == 'U' else k
            ref = ('%' + ('#' if alt else '') + '.*' + conv) % (p, ax)
            r.evaluations += 1
            r.outcomes['fmt:%s:%s' % (conv, 'alt' if alt else 'std')] += 1
            if got != ref:
                fail('format_%s · differs from C printf %%%s' % ({'f': 'fixed', 'e': 'exponent', 'g': 'general'}[k], k), 'ffmt',
                     [k, p, '%016x' % bits(ax), case, alt], got, ref)
        r.nontrivial += len(reqs)
        r.samples.append({'ffmt': list(map(str, reqs[len(reqs) // 3])), 'text': res[len(reqs) // 3]})
    elif kind in ('parse', 'hexparse'):
        sigma, n, shard = job[1], job[2], job[3]
        strings = [t for t, _ in X.shard_strings(sigma, n, shard)] if shard is not None else job[4]
        if kind == 'parse':
            res = C.run_worker(['fparse\t' + C.hx(t) for t in strings] + ['fparseb\t' + C.hx(t) for t in strings])
            m = len(strings)
            for i, t in enumerate(strings):
                ref = py_float(t)
                r.evaluations += 2
                acc = ref is not None
                r.outcomes['parse:' + ('accept' if acc else 'reject')] += 1
                if acc:
                    r.nontrivial += 1
                    if len(r.samples) < 1 and len(t) >= 5:
                        r.samples.append({'float()': t, 'value': repr(ref)})
                for j, nm in ((i, 'parse_str'), (m + i, 'parse_bytes')):
                    got = res[j]
                    if isinstance(got, dict) and ('panic' in got or 'crash' in got or 'hang' in got):
                        fail('%s · obs=panic' % nm, nm, t, got, repr(ref))
                    elif not same_float(got, ref):
                        if ref is None:
                            sig = '%s · ref=reject · obs=accept' % nm
                        elif got is None:
                            sig = '%s · ref=accept · obs=reject' % nm
                        else:
                            sig = '%s · value differs' % nm
                        fail(sig, nm, t, got, repr(ref))
        else:
            res = C.run_worker(['ffromhex\t' + C.hx(t) for t in strings])
            for t, got in zip(strings, res):
                ref = py_fromhex(t)
                r.evaluations += 1
                acc = ref is not None
                r.outcomes['fromhex:' + ('accept' if acc else 'reject')] += 1
                if acc:
                    r.nontrivial += 1
                    if len(r.samples) < 1 and len(t) >= 5:
                        r.samples.append({'fromhex': t, 'value': repr(ref)})
                if isinstance(got, dict) and ('panic' in got or 'crash' in got or 'hang' in got):
                    fail('from_hex · obs=panic', 'ffromhex', t, got, repr(ref))
                elif not same_float(got, ref):
                    sig = 'from_hex · ref=reject · obs=accept' if ref is None else ('from_hex · ref=accept · obs=reject' if got is None else 'from_hex · value differs')
                    fail(sig, 'ffromhex', t, got, repr(ref))
    r.states = r.transitions = r.validated = r.evaluations
    return r


def long_decimal_strings(tier):
    """decimal inputs with 20..800 significant digits: the exact midpoint of two adjacent doubles (a tie), the midpoint nudged up / down in a far digit,
    and the exact expansions of the neighbours: a parser that looks at the first 19 digits only gets these one ulp wrong"""
    from decimal import Decimal, getcontext
    getcontext().prec = 1200
    seeds = [1.0, 9007199254740992.0, 9007199254740994.0, 73786976294838206464.0, 1e22, 1e23, 0.1, 0.3, 123456789.0, 5e-324, 2.2250738585072014e-308,
             1.7976931348623157e308, 4.9e-310, 1e-5, 6.02214076e23, 3.141592653589793, 8.98846567431158e307, 1e16, 2.0 ** 64, 2.0 ** 70 + 2.0 ** 18]
    if tier != 'quick':
        seeds += [float('%de%d' % (m, e)) for m in (1, 3, 7, 9, 15, 123) for e in range(-30, 31, 3)]
    out = []
    for x in seeds:
        nxt = frombits(bits(x) + 1)
        if nxt != nxt or nxt in (float('inf'),):
            continue
        a, b = Decimal(x), Decimal(nxt)
        mid = (a + b) / 2
        for v in (mid, a, b):
            s = format(v, 'f') if abs(v) >= Decimal('1e-30') else format(v, 'e')
            s = s.rstrip('0') if '.' in s and 'e' not in s else s
            if s.endswith('.'):
                s += '0'
            out.append(s)
            if v is mid:
                out.append(s + '0000000001' if '.' in s and 'e' not in s else s)
                t = format(v - (b - a) / Decimal(10 ** 12), 'f' if 'e' not in s else 'e')
                out.append(t)
                out.append('-' + s)
                out.append(s.replace('.', '_0.') if s[0] != '.' and '_' not in s and 'e' not in s and s.split('.')[0][-1:].isdigit() else s)
    return sorted(set(out))


def hex_rounding_strings(tier):
    """hexadecimal inputs that are not exactly representable: 13/14/15+ fraction digits around ties, at the normal/subnormal/underflow/overflow
    exponents, long zero runs and digit runs beyond 128 bits: fromhex rounds to nearest-even, underflows to 0 and overflows to an error"""
    out = []
    fr13 = ['0000000000000', '0000000000001', 'fffffffffffff', 'ffffffffffffe', '8000000000000', '123456789abcd']
    tails = ['', '0', '7', '8', '9', 'f', '80', '800000000001', '7fffffffffff', '8' + '0' * 30, '8' + '0' * 30 + '1', 'f' * 40]
    exps = [0, 1, -1, -1021, -1022, -1023, -1024, -1070, -1073, -1074, -1075, -1076, -1080, -1200, 1022, 1023, 1024, 2000]
    heads = ['1', '0', 'f', '1f', '8'] if tier != 'quick' else ['1', 'f']
    for h in heads:
        for f in fr13:
            for t in tails:
                for e in exps:
                    for sign in ('', '-'):
                        out.append('%s0x%s.%s%sp%d' % (sign, h, f, t, e))
    for e in exps:
        out += ['0x.%s1p%d' % ('0' * 40, e), '0x1%sp%d' % ('0' * 40, e - 160), '1p%d' % e, '0x0.8p%d' % e, '0x0.4p%d' % e, '0x0.c%sp%d' % ('0' * 20, e), '0x1p%s%d' % ('+' if e >= 0 else '', e)]
    out += ['1p-99999999999999999999', '1p99999999999999999999', '0x1p+-1', '0x1.p', '0x.p0', '0x1.8p', '0x1_0p0']
    return out


PARSE_SIGMA = [' ', '+', '-', '0', '1', '9', '_', '.', 'e']
HEX_SIGMA = ['0', '1', 'f', 'x', 'p', '.', '+', '-', 'a']


def jobs(tier):
    V = value_set(tier)
    out = []
    for ch in X.chunks(iter(V), 4000):
        out.append(('repr', ch))
    precs = list(range(0, 21))
    Vf = V if tier != 'quick' else V[::6]
    for ch in X.chunks(iter(Vf), 100):
        out.append(('fmt', ch, precs))
    n = 6 if tier == 'quick' else 8
    for s in X.prefix_shards(PARSE_SIGMA, n):
        out.append(('parse', PARSE_SIGMA, n, s))
    out.append(('parse', None, None, None, special_strings()))
    for ch in X.chunks(iter(long_decimal_strings(tier)), 400):
        out.append(('parse', None, None, None, ch))
    nh = 6 if tier == 'quick' else 8
    for s in X.prefix_shards(HEX_SIGMA, nh):
        out.append(('hexparse', HEX_SIGMA, nh, s))
    for ch in X.chunks(iter(hex_rounding_strings(tier)), 4000):
        out.append(('hexparse', None, None, None, ch))
    return out, len(V), len(Vf)


def run(tier, seed):
    t0 = time.time()
    js, nv, nvf = jobs(tier)
    total = C.Result()
    for r in C.pmap(run_job, js):
        total.merge(r)
    total.extra['value_set_size'] = nv
    total.extra['value_set_size_for_formatting'] = nvf
    rule = ('to_string/to_hex/from_hex on a boundary set V of %d doubles (powers of ten and two with ulp neighbours, small integers, ties, carries, '
            'm*10^e, extremes, specials, both signs); format_fixed/exponent/general on %d of them x precision 0..20 x case x alternate flag vs '
            'C printf; parse_str/parse_bytes on every string of length<=%d over %r plus every case/sign/whitespace/one-edit variant of inf/infinity/nan; '
            'from_hex on every string of length<=%d over %r; non-trivial = (conversion input accepted by Python) or a formatting evaluation; '
            'distinct = distinct (function, input)' % (nv, nvf, 6 if tier == 'quick' else 8, ''.join(PARSE_SIGMA), 6 if tier == 'quick' else 8, ''.join(HEX_SIGMA)))
    return C.finish(PROP, tier, seed, t0, total, rule,
                    ['CPython 3.11 float()/repr/float.hex/fromhex/%-formatting define the reference',
                     'to_string is judged on round trip, digit count and shape only (exact ties may legitimately pick another last digit)'],
                    C.py_version())


def replay(path):
    case = json.load(open(path))['case']
    op, inp = case['op'], case['input']
    outs = []
    for _ in range(2):
        if op == 'frepr':
            x = frombits(int(inp, 16))
            got = C.run_worker(['frepr\t' + inp])[0]
            outs.append((got, judge_repr(x, got)))
        elif op == 'fhex':
            x = frombits(int(inp, 16))
            got = C.run_worker(['fhex\t' + inp])[0]
            outs.append((got, None if got == x.hex() else 'differs'))
        elif op == 'ffmt':
            k, p, b, case_, alt = inp
            got = C.run_worker(['ffmt\t%s\t%d\t%s\t%s\t%d' % (k, (p or 1) if k == 'g' else p, b, case_, alt)])[0]
            conv = k.upper() if case_ == 'U' else k
            ref = ('%' + ('#' if alt else '') + '.*' + conv) % (p, frombits(int(b, 16)))
            outs.append((got, None if got == ref else 'differs from ' + ref))
        elif op in ('parse_str', 'parse_bytes'):
            got = C.run_worker([('fparse' if op == 'parse_str' else 'fparseb') + '\t' + C.hx(inp)])[0]
            outs.append((got, None if same_float(got if not (isinstance(got, dict) and 'panic' in got) else None, py_float(inp)) and not (isinstance(got, dict) and 'panic' in got) else 'differs'))
        elif op == 'ffromhex':
            got = C.run_worker(['ffromhex\t' + C.hx(inp)])[0]
            ref = py_fromhex(inp) if not case['signature'].startswith('from_hex(to_hex') else frombits(int(case['expected'], 16))
            outs.append((got, None if same_float(got, ref) else 'differs'))
        else:
            raise C.Machinery('unknown replay op ' + op)
    if json.dumps(outs[0], default=repr) != json.dumps(outs[1], default=repr):
        raise C.Machinery('replay is not deterministic')
    print('replay %s %r -> %r %s' % (op, inp, outs[0][0], outs[0][1] or 'holds'))
    if outs[0][1]:
        print('VIOLATION property=%s replay=%s' % (PROP, path))
        return 1
    return 0
