"""C07 — f-strings decompose into the reference literal parts and replacement fields.
(i) E-STR over lexeme-level f-string bodies (28 symbols, length<=4/5) in four wrappers; (ii) a product of field shapes
(expression x conversion x spec x '=' form x surrounding literal pieces); (iii) implicit concatenations (corpus.fstring_product);
each parsed in expression mode by the real parser and compared with CPython 3.11's tree (parts, conversion, nested spec) and, for the
expressions inside fields, with CPython's positions."""
import time, json, itertools, ast
from .. import common as C, explore as X, corpus as K, astcmp as A
from . import c01, c02

PROP = 'C07'
CONFIGS = ('default',)
SIGMA = ['a', ' ', '\t', '{', '}', '{{', '}}', '!r', '!', ':', '=', '==', '<', '>', '(', ')', '[', ']', '"', '"""', '.', '#', '\\n', '\\x41', '\\{', '\\N{DASH}', '\n', '\r\n', '\\101', '\\0', '\\33', '\\u00e9', 'é']
CORE = ['a', ' ', '{', '}', '{{', '}}', '!r', ':', '=', '(', ')', '[', ']', '"', '.', '\\n', '\n', 'é']
WRAPPERS = [("f'", "'"), ("f'''", "'''"), ("rf'", "'"), ('F"', '"')]

EXPRS = ['a', 'a.b', 'a[0]', 'a["k"]', 'a[1:2]', 'a == b', 'a != b', 'a < b', '(a := 1)', '(lambda: 1)', '(lambda x: x)(1)', '{1: 2}[1]', '{1, 2}', '[x for x in a]', 'a if b else c',
         '"s"', '"""t"""', 'not a', '-a', 'a or b', 'f(a, b=1)', '(a, b)', 'a,', '*a, b', 'yield', 'await a', '3.', '1_0', "b'x'", 'a is not b', 'a  ', '  a', '(a)', '((a))', 'é', '名[é]', '(a),(b)', '(a)+(b)', '(a)for a in (b)', '(a)if(b)else(c)', '(a).b(c)', 'a["é"]', '"é€"', '(a)\n+(b)']
CONVS = ['', '!r', '!s', '!a', ' !r', '!r ']
SPECS = ['', ':', ':x', ':>10', ':{w}', ':{w}.{p}', ':>{w}x', ':{w!r}', ':{w:{p}}', ':é', ': ', ':}}', ':{{', ':\\n', ':\\x41', ':!r', '::', ':=', ':aé', ':aé{w}', ':{{1:2}[1]}', ':{ {1:2}[1]}', ':{w}.{{2}.pop()}f', ':{{{w}}}']
EQS = ['', '=', ' = ', '= ', ' =', '=\t', '=\n', '= \x0c']
PIECES = [('', ''), ('x', 'y'), ('{{', '}}'), ('\\n', '\\t'), ('é', '名'), ('\\101', '\\0'), ('\\N{DASH}\\u00e9', '\\33[0m')]


def field_product(tier):
    exprs = EXPRS if tier == 'thorough' else EXPRS[:20] + EXPRS[-8:]
    for e, c, s, q, (l, r) in itertools.product(exprs, CONVS, SPECS, EQS, PIECES):
        body = '%s{%s%s%s%s}%s' % (l, e, q, c, s, r)
        yield "f'%s'" % body
        if tier == 'thorough' or (c in ('', '!r') and q in ('', '=', '=\n')):
            yield "f'''%s'''" % body


def reference(text):
    tree, err = K.cpython_parse(text, 'eval')
    if tree is None:
        return None, err
    data = text.encode('utf-8')
    starts = c02.line_starts(data)
    d = A.PyDump(lambda l, c: starts[l - 1] + c)
    return ('Expression', {'body': d.node(tree.body), '@': None}), None


def judge(text, obs):
    """-> (outcome, [sig...], detail)"""
    ref, err = reference(text)
    if K.is_bad(obs):
        return 'bad', ['parse · obs=%s' % K.bad_kind(obs)], None
    if ref is None:
        if 'err' in obs:
            return 'both-reject', [], None
        return ('over-accept(C04)' if err and 'f-string' in err else 'py-reject/rs-accept'), [], None
    if ref[1]['body'][0] != 'JoinedStr':
        # the wrapper was closed early by a quote of the body: not an f-string any more; C01 territory, still compared structurally
        pass
    if 'err' in obs:
        return 'over-reject', ['f-string · ref=ok · obs=err(%s)' % K.err_kind(obs)], {'err': K.err_kind(obs), 'off': obs.get('off')}
    got = A.rs(obs['ok'], with_ranges=True)
    got = c01.drop_empty_type_params(('Expression', {'body': got[1]['body'], '@': None}))
    g0, r0 = A.mask_spec_kinds(A.erase(got)), A.mask_spec_kinds(A.erase(ref))
    if g0 != r0:
        diff = A.firstdiff(g0, r0)
        return 'tree-diff', ['f-string · ref=ok · obs=ok · %s: %s vs %s' % (A.path_suffix(diff[0], 1), str(diff[1])[:40], str(diff[2])[:40])], {'path': diff[0], 'rust': diff[1], 'python': diff[2]}
    sigs = []
    detail = None
    data = text.encode('utf-8')
    for path, g, r in c02.compare_ranges(got, ref):
        kind = path.rsplit('.', 1)[-1]
        sig = 'f-string · field expression range differs from the reference · %s %s' % (kind, ('start%+d end%+d' % (g[0] - r[0], g[1] - r[1])) if g else 'missing')
        if sig not in sigs:
            sigs.append(sig)
            detail = {'path': path, 'rust': list(g) if g else None, 'python': list(r), 'rust_slice': data[g[0]:g[1]].decode('utf-8', 'replace') if g else None,
                      'python_slice': data[r[0]:r[1]].decode('utf-8', 'replace')}
    if sigs:
        return 'range-diff', sigs, detail
    return ('equal' if ref[1]['body'][0] == 'JoinedStr' else 'equal(not an f-string)'), [], None


def run_shard(args):
    kind = args[0]
    if kind in ('bodies', 'bodies-core'):
        _, n, shard = args
        texts = []
        for body, l in X.shard_strings(SIGMA if kind == 'bodies' else CORE, n, shard):
            for pre, post in (WRAPPERS if kind == 'bodies' or l < n else WRAPPERS[:2]):
                texts.append((pre + body + post, 'bodies len=%d' % l))
    elif kind == 'fields':
        texts = [(t, 'field product') for t in args[1]]
    else:
        texts = [(t[4:].rstrip('\r\n'), 'concatenation product') for t in K.fstring_product(args[1]) if t.startswith('x = ')]
    r = C.Result()
    for chunk in (texts[i:i + 4000] for i in range(0, len(texts), 4000)):
        res = C.run_worker(['parse\teval\t' + C.hx(t) for t, _ in chunk])
        for (text, tag), obs in zip(chunk, res):
            out, sigs, detail = judge(text, obs)
            r.evaluations += 1
            r.by_bound[tag] += 1
            r.outcomes[out] += 1
            if out == 'equal':
                r.validated += 1
                if len(r.samples) < 1 and len(text) > 10:
                    r.samples.append(text)
            for sig in sigs:
                r.fails.append(C.Fail(PROP, sig, 'fstring', text, detail, None))
    r.extra['_hashes'] = {c01.h64(t) for t, _ in texts}
    return r


def run(tier, seed):
    t0 = time.time()
    n = 3 if tier == 'quick' else 4
    jobs = [('bodies', n, s) for s in X.prefix_shards(SIGMA, n, 1 if tier == 'quick' else 2)]
    if tier != 'quick':
        jobs += [('bodies-core', n + 2, s) for s in X.prefix_shards(CORE, n + 2, 2)]
    jobs += [('fields', ch) for ch in X.chunks(field_product(tier), 8000)]
    jobs.append(('concat', 2 if tier == 'quick' else 3))
    total = C.Result()
    allh = set()
    for r in C.pmap(run_shard, jobs):
        allh |= r.extra.pop('_hashes', set())
        total.merge(r)
    total.states = len(allh)
    total.transitions = total.evaluations
    total.nontrivial = total.validated
    rule = ('(i) every f-string body of <=%d lexemes over the %d-symbol alphabet %r in the wrappers %r (thorough tier: also <=%d lexemes over an 18-symbol core, the longest length in the first two wrappers only); (ii) field product: %d expressions x %d conversions x %d specs x %d "=" forms x literal '
            'neighbours, single and triple quoted; (iii) every sequence of <=%d literals of the 14-literal concatenation set; each in expression mode vs CPython 3.11: parts, conversion, nested spec, '
            'and positions of the expressions inside fields; states = distinct texts; non-trivial = f-strings CPython accepts whose tree and field ranges were compared'
            % (n, len(SIGMA), SIGMA, [w[0] for w in WRAPPERS], n + 2, len(EXPRS), len(CONVS), len(SPECS), len(EQS), 2 if tier == 'quick' else 3))
    return C.finish(PROP, tier, seed, t0, total, rule,
                    ['CPython 3.11 (pre-PEP 701) f-string compiler defines parts and field-expression positions', 'the pieces themselves (Constant/FormattedValue/nested JoinedStr) are not position-compared: 3.11 gives '
                     'each the extent of the whole literal'], C.py_version())


def replay(path):
    case = json.load(open(path))['case']
    text = case['input']
    outs = []
    for _ in range(2):
        obs = C.run_worker(['parse\teval\t' + C.hx(text)])[0]
        outs.append((obs, judge(text, obs)))
    if json.dumps(outs[0][0], sort_keys=True) != json.dumps(outs[1][0], sort_keys=True):
        raise C.Machinery('replay is not deterministic')
    out, sigs, detail = outs[0][1]
    print('replay %r: %s %s' % (text, out, sigs))
    if case['signature'] in sigs:
        print('VIOLATION property=%s replay=%s' % (PROP, path))
        return 1
    return 0
