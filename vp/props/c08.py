"""C08 — layout never changes the tree.
Every G_ref sentence (CPython-valid or not) x every single layout rewrite at every applicable site: newline style, indentation unit, BOM,
final newline, trailing whitespace, comment after code, inserted blank / whitespace-only / comment-only / form-feed lines, backslash line
joins between tokens outside brackets, at the very start of a statement line and directly after its indentation (LF, CRLF, lone CR), line breaks (+ indentation, + comment) between tokens inside brackets, redundant parentheses around
every expression occurrence. A rewrite counts only if CPython parses base and variant to the same tree (or rejects both); then the real
parser must accept both or neither, and the trees must be equal up to ranges."""
import time, json, ast
from .. import common as C, gref, corpus as K, astcmp as A, relcheck as R
from . import c01

PROP = 'C08'
GLOBAL_LAYOUTS = ['crlf', 'cr', 'tab', 'bom', 'nofinalnl', 'comments', 'comments-crlf-tab', 'spread', 'spread-comments', 'trivia-run']
gref.LAYOUTS.setdefault('indent1', gref.Layout('indent1', indent=' '))
gref.LAYOUTS.setdefault('indent2tabs', gref.Layout('indent2tabs', indent='\t\t'))
gref.LAYOUTS.setdefault('indent8', gref.Layout('indent8', indent='        '))
GLOBAL_LAYOUTS += ['indent1', 'indent2tabs', 'indent8']
INSERT_LINES = ['', '   ', '# c', '\x0c', '\t# c', '        # é', ' \t']
LINE_ENDS = [' ', '\t', ' # c', '\x0c', ' #']
IN_BRACKET = ['\n', '\n        ', ' # c\n  ', '\r\n\t', '\r', ' # c\r\t', '\n\n \t', '\n# c\n \t', '\n\n\t ']
LINE_START_JOINS = ['\n', '\r\n', '\r']
OUT_BRACKET = [' \\\n', '\\\n        ', ' \\\r\n', ' \\\r', '\\\r\t']


def py_dump(text):
    """CPython's tree without positions, or ('reject',) """
    try:
        return ast.dump(ast.parse(text.encode('utf-8')))
    except (SyntaxError, ValueError, RecursionError, MemoryError):
        return None


def token_depths(toks):
    """bracket depth before each token and whether the token is inside an f-string literal"""
    depth = 0
    fdepth = 0
    out = []
    for t in toks:
        inside_f = fdepth > 0
        if t[:1] in 'fF' and len(t) > 1 and t[1] in '\'"' and t.endswith('{'):
            fdepth += 1
            out.append((depth, inside_f, True))
            continue
        if fdepth and t.startswith('}') and t[-1] in '\'"':
            fdepth -= 1
            out.append((depth, True, True))
            continue
        if not fdepth and t in (')', ']', '}'):
            depth -= 1
        out.append((depth, inside_f, False))
        if not fdepth and t in ('(', '[', '{'):
            depth += 1
    return out


PAIR_LAYOUTS = ['tab', 'spread', 'indent1', 'bom']


def variants(toks, tier_sites=True, layouts=None, pair_with=None):
    """yield (kind, variant_text). Single rewrites start from the plain rendering; with pair_with=<layout name> the site rewrites are
    applied on top of that global layout (a pair of rewrites: the layout and the site rewrite)."""
    spans = []
    start_layout = gref.LAYOUTS[pair_with] if pair_with else gref.PLAIN
    base = gref.render(toks, start_layout, spans)
    data = base.encode('utf-8')
    tag = ('%s+' % pair_with) if pair_with else ''
    if not pair_with:
        for ln in (layouts or GLOBAL_LAYOUTS):
            yield 'layout:' + ln, gref.render(toks, gref.LAYOUTS[ln])
    # mixed newline styles per line
    lines = base.split('\n')
    if len(lines) > 2:
        yield tag + 'layout:mixed-newlines', ''.join(l + ('\r\n' if i % 3 == 0 else ('\r' if i % 3 == 1 else '\n')) for i, l in enumerate(lines[:-1]))
    if not tier_sites:
        return
    if pair_with:
        for k, v in _site_variants(toks, base, data, lines, spans):
            yield tag + k, v
        return
    yield from _site_variants(toks, base, data, lines, spans)


def _site_variants(toks, base, data, lines, spans):
    # line-level sites
    nlines = len(lines) - 1
    for j in range(nlines + 1):
        for ins in INSERT_LINES:
            yield 'insert-line:' + repr(ins), '\n'.join(lines[:j] + [ins] + lines[j:])
    # a blank / comment-only last line that is not newline-terminated (end of input inside the indentation logic)
    for ins in INSERT_LINES:
        if ins:
            yield 'unterminated-last-line:' + repr(ins), base + ins
    for j in range(nlines):
        for end in LINE_ENDS:
            yield 'line-end:' + repr(end), '\n'.join(lines[:j] + [lines[j] + end] + lines[j + 1:])
        if lines[j].startswith(' '):
            yield 'formfeed-before-indent', '\n'.join(lines[:j] + ['\x0c' + lines[j]] + lines[j + 1:])
        # explicit line joining at the very start of a physical line and inside its indentation, with each kind of line break
        # (the indentation of the joined line is what precedes the first backslash if anything does, else what follows the join;
        # a join in the middle of the indentation would change the indentation and is therefore not a layout-only rewrite)
        if lines[j].strip():
            ind = len(lines[j]) - len(lines[j].lstrip(' '))
            for nl in LINE_START_JOINS:
                yield 'join-at-line-start:' + repr(nl), '\n'.join(lines[:j] + ['\\' + nl + lines[j]] + lines[j + 1:])
                if ind:
                    # after the whole indentation: what precedes the backslash is the indentation, whatever follows the join
                    yield 'join-after-indent:' + repr(nl), '\n'.join(lines[:j] + [lines[j][:ind] + '\\' + nl + lines[j][ind:]] + lines[j + 1:])
                    yield 'join-after-indent-more:' + repr(nl), '\n'.join(lines[:j] + [lines[j][:ind] + '\\' + nl + '  ' + lines[j][ind:]] + lines[j + 1:])
    # token-gap sites
    real = [t for t in toks if t not in ('NL', 'IND', 'DED')]
    depths = token_depths(real)
    by_index = {ti: (a, b, ln) for ti, a, b, ln in spans}
    order = [ti for ti, t in enumerate(toks) if t not in ('NL', 'IND', 'DED')]
    for k in range(len(order) - 1):
        i, j = order[k], order[k + 1]
        a1, b1, l1 = by_index[i]
        a2, b2, l2 = by_index[j]
        if l1 != l2:
            continue
        d_after, in_f_after, _ = depths[k + 1]
        d_before_next = depths[k + 1][0] if real[k + 1] not in (')', ']', '}') else depths[k + 1][0] + 1
        inside_f = depths[k + 1][1] or (depths[k][2] and not depths[k][1] and real[k][:1] in 'fF') or depths[k + 1][2] and depths[k + 1][1]
        # a gap is inside an f-string literal if the next token is inside one, or this token opened one
        opened = real[k][:1] in 'fF' and real[k].endswith('{')
        if depths[k + 1][1] or opened:
            continue
        gap_depth = depths[k][0] + (1 if real[k] in ('(', '[', '{') and not depths[k][1] else 0)
        for rep in (IN_BRACKET if gap_depth > 0 else OUT_BRACKET):
            yield ('in-bracket-break:' if gap_depth > 0 else 'line-join:') + repr(rep), (data[:b1] + rep.encode() + data[a2:]).decode('utf-8')
    # redundant parentheses around every expression occurrence (positions from CPython's own tree of the base text)
    try:
        tree = ast.parse(data)
    except (SyntaxError, ValueError):
        return
    from .c02 import line_starts
    starts = line_starts(data)
    seen = set()
    for node in ast.walk(tree):
        if isinstance(node, ast.expr) and getattr(node, 'end_lineno', None) is not None:
            a = starts[node.lineno - 1] + node.col_offset
            b = starts[node.end_lineno - 1] + node.end_col_offset
            if (a, b) in seen or isinstance(node, (ast.JoinedStr, ast.FormattedValue)) and False:
                continue
            seen.add((a, b))
            yield 'parenthesise:' + type(node).__name__, (data[:a] + b'(' + data[a:b] + b')' + data[b:]).decode('utf-8')
            yield 'parenthesise-spaced:' + type(node).__name__, (data[:a] + b'( ' + data[a:b] + b' )' + data[b:]).decode('utf-8')


def canon(obs):
    if K.is_bad(obs):
        return ('bad', K.bad_kind(obs))
    if 'err' in obs:
        return ('err',)
    return ('ok', A.rs(obs['ok']))


def run_shard(args):
    paths, d, sites, pairs = args
    r = C.Result()
    hashes = set()
    cases = []   # (base_text, kind, variant_text)
    for path in paths:
        for toks, cost in K.sentences(path, d, 'file'):
            base = gref.render(toks)
            bd = py_dump(base)
            seenv = {base}
            # soft-keyword statements get the site rewrites one level deeper: their recognition looks ahead over the whole header line
            soft = bool(toks) and toks[0] in ('match', 'type', 'case')
            gens = [variants(toks, sites and cost <= sites + (1 if soft else 0), layouts=(None if cost <= 2 else ['crlf', 'comments-crlf-tab', 'spread-comments']))]
            if pairs and cost <= pairs:
                gens += [variants(toks, True, pair_with=ln) for ln in PAIR_LAYOUTS]
            for kind, vt in (kv for g in gens for kv in g):
                if vt in seenv or '\ufeff' in vt[1:]:
                    continue  # (a BOM is only a BOM at offset 0)
                seenv.add(vt)
                r.info['variants generated'] += 1
                # layout-only? CPython must see the same tree (or reject both)
                if py_dump(vt) != bd:
                    r.info['discarded: not layout-only for CPython (%s)' % kind.split(':')[0]] += 1
                    continue
                cases.append((base, kind, vt, cost, bd is not None))
    # run: bases once, variants once
    bases = sorted({c[0] for c in cases})
    bres = dict(zip(bases, (canon(o) for o in C.run_worker(['parse\texec\t' + C.hx(t) for t in bases]))))
    for chunk in (cases[i:i + 3000] for i in range(0, len(cases), 3000)):
        res = C.run_worker(['parse\texec\t' + C.hx(c[2]) for c in chunk])
        for (base, kind, vt, cost, valid), obs in zip(chunk, res):
            r.evaluations += 1
            r.transitions += 1
            k0 = kind.split(':')[0]
            r.by_bound['%s cost=%d' % (k0, cost)] += 1
            b = bres[base]
            v = canon(obs)
            hashes.add(c01.h64(vt))
            inp = {'base': base, 'variant': vt, 'rewrite': kind}
            if v[0] == 'bad':
                r.outcomes['bad'] += 1
                r.fails.append(C.Fail(PROP, '%s · variant · obs=%s' % (k0, v[1]), 'layout', inp, obs, 'no panic'))
            elif b[0] != v[0]:
                r.outcomes['acceptance-differs'] += 1
                r.fails.append(C.Fail(PROP, '%s · acceptance changes (base %s, variant %s; CPython %s both)' % (k0, b[0], v[0], 'accepts' if valid else 'rejects'), 'layout', inp,
                                      {'base': b[0], 'variant': v[0], 'variant_error': K.err_kind(obs) if 'err' in obs else None}, 'same acceptance'))
            elif b[0] == 'ok' and b[1] != v[1]:
                diff = A.firstdiff(v[1], b[1])
                r.outcomes['tree-differs'] += 1
                r.fails.append(C.Fail(PROP, '%s · tree changes · %s' % (k0, A.path_suffix(diff[0], 1)), 'layout', inp, {'path': diff[0], 'variant': diff[1], 'base': diff[2]}, 'same tree up to ranges'))
            else:
                r.outcomes['%s:same(%s)' % (k0, b[0])] += 1
                r.validated += 1
                if len(r.samples) < 1 and cost == d and k0 not in ('layout',):
                    r.samples.append(inp)
    r.extra['_hashes'] = hashes
    return r


def run(tier, seed):
    t0 = time.time()
    d = K.DEPTH[tier]
    # site rewrites on sentences of cost <= d-1 (every single rewrite at every site); global layouts on all sentences of cost <= d
    sites = d - 1
    pairs = 1 if tier == 'thorough' else 0
    total = C.Result()
    allh = set()
    jobs = [(g, d, sites, pairs) for g in K.group_shards(K.shards_for(d, 'file'), 400 if tier == 'thorough' else 96)]
    for r in C.pmap(run_shard, jobs):
        allh |= r.extra.pop('_hashes')
        total.merge(r)
    total.states = len(allh)
    total.nontrivial = total.validated
    rule = ('every G_ref sentence (valid or not) with <=%d non-default alternatives x the global layouts %s (+ mixed newline styles), and every sentence with <=%d (match/type statements: one more) x every single site rewrite: '
            'inserted line %r before every line, line end %r on every line, form feed before indentation, a break %r between every two tokens inside brackets, a join %r between every two tokens '
            'outside brackets, parentheses (tight and spaced) around every expression node CPython reports; a variant is judged iff CPython gives base and variant the same position-free tree (or rejects '
            'both); thorough additionally: every pair (global layout in %r) x (site rewrite) on sentences with <=1, and 3 layouts on cost-3 sentences; states = distinct judged variants, transitions = base/variant comparisons' % (d, GLOBAL_LAYOUTS, sites, INSERT_LINES, LINE_ENDS, IN_BRACKET, OUT_BRACKET, PAIR_LAYOUTS))
    return C.finish(PROP, tier, seed, t0, total, rule,
                    ['CPython 3.11 decides whether a rewrite is layout-only (same ast.dump without positions, or both rejected)', 'the relation itself is between two runs of the real parser'], C.py_version())


def replay(path):
    case = json.load(open(path))['case']
    inp = case['input']
    outs = []
    for _ in range(2):
        o = C.run_worker(['parse\texec\t' + C.hx(inp['base']), 'parse\texec\t' + C.hx(inp['variant'])])
        outs.append(o)
    if json.dumps(outs[0], sort_keys=True) != json.dumps(outs[1], sort_keys=True):
        raise C.Machinery('replay is not deterministic')
    b, v = canon(outs[0][0]), canon(outs[0][1])
    same_for_cpython = py_dump(inp['base']) == py_dump(inp['variant'])
    bad = same_for_cpython and (b[0] != v[0] or (b[0] == 'ok' and b[1] != v[1]) or v[0] == 'bad')
    print('replay %r -> %r (%s): base %s variant %s%s' % (inp['base'], inp['variant'], inp['rewrite'], b[0], v[0], '' if same_for_cpython else ' [not layout-only for CPython]'))
    if bad:
        print('VIOLATION property=%s replay=%s' % (PROP, path))
        return 1
    return 0
