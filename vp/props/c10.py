"""C10 — cargo feature choices do not change what is parsed.
The same texts (G_ref corpus under layouts with comments/blank lines/CRLF, all short character strings, number shapes) through the four
worker builds {default, full-lexer, all-nodes-with-ranges, num-bigint}: acceptance, tree, mandatory ranges and error must be equal."""
import time, json
from .. import common as C, gref, corpus as K, explore as X, relcheck as R
from . import c01

PROP = 'C10'
CONFIGS = ('default', 'full-lexer', 'all-nodes', 'num-bigint')
LAYOUTS = ['plain', 'comments', 'comments-crlf-tab', 'spread-comments', 'trivia-run']
NUM_SIGMA = ['0', '1', '9', '_', '.', 'e', 'x', 'b', 'o', 'j', 'f', '-']
# replacement fields whose expression text holds line breaks / comments: the f-string sub-parser runs its own lexer + token filter
FIELD_NL = ["f'''{\na\n}'''", "f'''a {f(1,\n     2)} b'''", "f'''{a +\nb=}'''", "f'{a # c}'", "f'''{a # c\n}'''", "f'''{\n# c\na}'''", "f'''{a:{\nw\n}}'''", "f'''{(\na,\n)!r:>{w}}'''",
            "x = (f'''{\na}''' 's'\n f'''{b\n}''')"]


def erase_optional(default_tree, other):
    """make `other` comparable with the default build: wherever the default build has no range (()), drop the other's"""
    if isinstance(default_tree, list) and isinstance(other, list) and len(default_tree) == len(other):
        return [erase_optional(a, b) for a, b in zip(default_tree, other)]
    if isinstance(default_tree, dict) and isinstance(other, dict):
        if 'f' in default_tree and 'f' in other:
            f = {}
            for k, v in other['f'].items():
                dv = default_tree['f'].get(k)
                if k == 'range' and dv == {'u': []}:
                    f[k] = dv
                else:
                    f[k] = erase_optional(dv, v) if dv is not None else v
            return {'t': other['t'], 'f': f}
        if 'a' in default_tree and 'a' in other and len(default_tree['a']) == len(other['a']):
            return {'t': other['t'], 'a': [erase_optional(a, b) for a, b in zip(default_tree['a'], other['a'])]}
        if 'ok' in default_tree and 'ok' in other:
            return {'ok': erase_optional(default_tree['ok'], other['ok'])}
    return other


def strip_full_lexer_tokens(raw):
    v = json.loads(raw)
    v['toks'] = [t for t in v['toks'] if t[0].get('t') not in ('Comment', 'NonLogicalNewline')]
    return v


def run_shard(args):
    kind = args[0]
    if kind == 'corpus':
        _, paths, d = args
        texts = [(t, 'exec', '%s cost=%d' % (ln, c)) for t, c, ln in R.corpus_texts(paths, d, 'file', LAYOUTS)]
    elif kind == 'chars':
        _, n, shard = args
        texts = []
        for t, l in X.shard_strings(R.CHAR_SIGMA, n, shard):
            texts.append((t, 'exec', 'chars len=%d' % l))
            texts.append((t, 'eval', 'chars len=%d' % l))
    elif kind == 'sites':
        # every physical-line rewrite of C08 (explicit line joins outside brackets, line breaks inside brackets, inserted blank/comment lines) of the
        # sentences below the bound: the full-lexer build tokenises what the default build skips
        from . import c08
        _, paths, d = args
        texts = []
        seen = set()
        for path in paths:
            for toks, cost in K.sentences(path, d, 'file'):
                for k, v in c08.variants(toks, True, layouts=[]):
                    if v not in seen and k.split(':')[0] in ('line-join', 'in-bracket-break', 'insert-line', 'line-end', 'unterminated-last-line'):
                        seen.add(v)
                        texts.append((v, 'exec', 'site rewrite cost=%d' % cost))
    elif kind == 'dense':
        texts = [(t, 'exec', tag) for t, tag in R.dense_family_texts(args[1])[args[2]::8]]
    elif kind == 'fstr':
        texts = [(t, 'exec', 'f-string product') for t in K.fstring_product(args[1])] + [(t, m, 'f-string fields with line breaks/comments') for t in FIELD_NL for m in ('exec', 'eval')]
    elif kind in ('layout', 'lex'):
        _, n, shard = args
        sigma = R.LAYOUT_LEX if kind == 'layout' else c01.LEX
        texts = [(t, 'exec', '%s lexemes n=%d' % (kind, l)) for t, l in X.shard_strings(sigma, n, shard)]
    else:
        _, n, shard = args
        texts = [(t, 'eval', 'numbers len=%d' % l) for t, l in X.shard_strings(NUM_SIGMA, n, shard)]
    r = C.Result()
    for chunk in (texts[i:i + 3000] for i in range(0, len(texts), 3000)):
        lines = ['parse\t%s\t%s' % (m, C.hx(t)) for t, m, _ in chunk]
        llines = ['lex\t%s\t%s' % (m, C.hx(t)) for t, m, _ in chunk]
        out = {cfg: C.run_worker_raw(lines, cfg=cfg) for cfg in CONFIGS}
        lex = {cfg: C.run_worker_raw(llines, cfg=cfg) for cfg in ('default', 'full-lexer')}
        for i, (text, mode, tag) in enumerate(chunk):
            r.evaluations += 1
            r.by_bound[tag] += 1
            base = out['default'][i]
            inp = {'mode': mode, 'text': text}
            fails = []
            cls = 'ok' if base.startswith('{"ok"') else ('err' if base.startswith('{"err"') else 'bad')
            for cfg in ('full-lexer', 'num-bigint'):
                r.transitions += 1
                if out[cfg][i] != base:
                    fails.append(('%s build: parse result differs from the default build' % cfg, out[cfg][i][:300], base[:300]))
            r.transitions += 1
            if out['all-nodes'][i] != base:
                a = json.loads(out['all-nodes'][i])
                b = json.loads(base)
                if erase_optional(b, a) != b:
                    fails.append(('all-nodes build: parse result differs from the default build beyond the optional ranges', out['all-nodes'][i][:300], base[:300]))
            r.transitions += 1
            if lex['full-lexer'][i] != lex['default'][i]:
                if strip_full_lexer_tokens(lex['full-lexer'][i]) != json.loads(lex['default'][i]):
                    fails.append(('full-lexer token stream minus comments/non-logical newlines differs from the default stream', lex['full-lexer'][i][:300], lex['default'][i][:300]))
                else:
                    cls += '+comments'
            if cls == 'bad':
                fails.append(('default build: panic/crash', base[:200], 'no panic'))
            if not fails:
                r.outcomes['held ' + cls] += 1
                r.validated += 1
            else:
                r.outcomes['FAIL'] += 1
                for rel, got, want in fails:
                    r.fails.append(C.Fail(PROP, rel, 'c10', inp, {'observed': got}, {'default': want}))
    r.extra['_hashes'] = {c01.h64(m + t) for t, m, _ in texts}
    if texts:
        r.samples.append(texts[len(texts) // 2][0])
    return r


def run(tier, seed):
    t0 = time.time()
    d = K.DEPTH[tier]
    jobs = [('corpus', g, d) for g in K.group_shards(K.shards_for(d, 'file'), 400 if tier == 'thorough' else 64)]
    n = 3 if tier == 'quick' else 4
    jobs += [('chars', n, s) for s in X.prefix_shards(R.CHAR_SIGMA, n, 1 if tier == 'quick' else 2)]
    jobs += [('sites', g, d - 1) for g in K.group_shards(K.shards_for(d - 1, 'file'), 64)]
    jobs.append(('fstr', 2 if tier == 'quick' else 3))
    jobs += [('dense', 48 if tier == 'quick' else 120, k) for k in range(8)]
    ll = 4 if tier == 'quick' else 5
    jobs += [('layout', ll, s) for s in X.prefix_shards(R.LAYOUT_LEX, ll, 1)]
    lx = 2 if tier == 'quick' else 3
    jobs += [('lex', lx, s) for s in X.prefix_shards(c01.LEX, lx, 1)]
    nn = 4 if tier == 'quick' else 5
    jobs += [('numbers', nn, s) for s in X.prefix_shards(NUM_SIGMA, nn, 1)]
    total = C.Result()
    allh = set()
    for r in C.pmap(run_shard, jobs):
        allh |= r.extra.pop('_hashes', set())
        total.merge(r)
    total.states = len(allh)
    total.nontrivial = total.validated
    rule = ('texts: every G_ref sentence with <=%d non-default alternatives under layouts %s; every string of length<=%d over %r (module and expression mode); every string of '
            'length<=%d over the number alphabet %r; the f-string concatenation product and fields with line breaks/comments; every line-join / in-bracket-break / inserted-line rewrite of the sentences one level below the bound; every concatenation of <=%d layout lexemes and <=%d lexemes of '
            'the C01 lexeme alphabet; each parsed by the four builds (and lexed by default/full-lexer): pairwise comparison with the default build (verbatim for '
            'full-lexer and num-bigint, modulo ranges that are () in the default build for all-nodes; full-lexer tokens minus Comment/NonLogicalNewline == default tokens); '
            'states = distinct (mode, text), transitions = pairwise comparisons' % (d, LAYOUTS, n, ''.join(R.CHAR_SIGMA), nn, ''.join(NUM_SIGMA), ll, lx))
    return C.finish(PROP, tier, seed, t0, total, rule, ['self-relation between four builds of the same source tree; Debug rendering (integers print in decimal in both big-integer backends)'])


def replay(path):
    case = json.load(open(path))['case']
    inp = case['input']
    outs = []
    for _ in range(2):
        line = ['parse\t%s\t%s' % (inp['mode'], C.hx(inp['text']))]
        lline = ['lex\t%s\t%s' % (inp['mode'], C.hx(inp['text']))]
        outs.append(({c: C.run_worker_raw(line, cfg=c)[0] for c in CONFIGS}, {c: C.run_worker_raw(lline, cfg=c)[0] for c in ('default', 'full-lexer')}))
    if outs[0] != outs[1]:
        raise C.Machinery('replay is not deterministic')
    o, l = outs[0]
    bad = []
    for cfg in ('full-lexer', 'num-bigint'):
        if o[cfg] != o['default']:
            bad.append('%s build: parse result differs from the default build' % cfg)
    if o['all-nodes'] != o['default'] and erase_optional(json.loads(o['default']), json.loads(o['all-nodes'])) != json.loads(o['default']):
        bad.append('all-nodes build: parse result differs from the default build beyond the optional ranges')
    if l['full-lexer'] != l['default'] and strip_full_lexer_tokens(l['full-lexer']) != json.loads(l['default']):
        bad.append('full-lexer token stream minus comments/non-logical newlines differs from the default stream')
    print('replay %r: %s' % (inp['text'], bad or 'holds'))
    if case['signature'] in bad:
        print('VIOLATION property=%s replay=%s' % (PROP, path))
        return 1
    return 0
