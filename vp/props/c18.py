"""C18 — format-spec parsing and formatting equal Python's format().
E-PROD: full cartesian product of per-field domains of the format mini-language x a value set, plus E-STR over the
mini-language alphabet (malformed specs); real FormatSpec::parse + format_{int,float,string,bool} vs format(value, spec)."""
import time, json, itertools, struct
from .. import common as C, explore as X

PROP = 'C18'

DOM = {
    'quick': dict(fill=['', 'x', '0'], align=['', '<', '>', '=', '^'], sign=['', '+', ' '], z=[''], alt=['', '#'], zero=['', '0'],
                  width=['', '6'], group=['', ',', '_'], prec=['', '.0', '.2'],
                  typ=['', 'b', 'c', 'd', 'e', 'E', 'f', 'F', 'g', 'G', 'n', 'o', 's', 'x', 'X', '%', 'N', 'y']),
    'thorough': dict(fill=['', 'x', '0', '<', 'é'], align=['', '<', '>', '=', '^'], sign=['', '+', '-', ' '], z=[''], alt=['', '#'],
                     zero=['', '0'], width=['', '1', '6', '12', '25'], group=['', ',', '_'], prec=['', '.0', '.1', '.2', '.10'],
                     typ=['', 'b', 'c', 'd', 'e', 'E', 'f', 'F', 'g', 'G', 'n', 'o', 's', 'x', 'X', '%', 'N', 'y']),
}
ORDER = ['fill', 'align', 'sign', 'z', 'alt', 'zero', 'width', 'group', 'prec', 'typ']
INTS = [0, 1, -1, 7, 255, -255, 65536, 1234567, 10 ** 20, -10 ** 20, 0x110000, 0x10ffff, 97, 1000, -1000]
FLOATS = [0.0, -0.0, 1.0, -1.5, 0.5, 1234.5678, 1e-7, 1e16, 1e22, 123456789.0, float('inf'), float('-inf'), float('nan'), 1000.0, 0.001, 2.675,
          99999.5, 1e5, 123456.0, 9.5, 99.5, 999999.5, 0.000099999995, 9.9999995, 5.0, 123.0, 2.5, 0.5]
STRS = ['', 'a', 'abc', 'héllo', '日本語']
BOOLS = [True, False]
STRS2 = ['é', 'éé', 'héé', '日本語', '😀😀', 'aé', 'abc']
MAL_SIGMA = ['<', '>', '=', '^', '+', '-', ' ', '#', '0', '1', '9', ',', '_', '.', 'd', 'f', 's', 'x', 'é', '!', 'r', 'z']
MAL_VALUES = [('i', 1234567), ('f', -1234.5678), ('s', 'héllo'), ('b', True)]


def fbits(x):
    return '%016x' % struct.unpack('<Q', struct.pack('<d', x))[0]


def value_reqs():
    vals = [('i', v) for v in INTS] + [('f', v) for v in FLOATS] + [('s', v) for v in STRS] + [('b', v) for v in BOOLS]
    return vals


def enc(kind, v):
    if kind == 'i':
        return str(v)
    if kind == 'f':
        return fbits(v)
    if kind == 's':
        return C.hx(v)
    return '1' if v else '0'


def reference(kind, v, spec):
    try:
        return ('ok', format(v, spec))
    except (ValueError, OverflowError) as e:
        return ('err', str(e))
    except TypeError as e:
        return ('err', 'TypeError ' + str(e))


def features(spec_fields):
    if spec_fields is None:
        return 'malformed'
    return 'type=%s' % (spec_fields['typ'] or '-')


def judge(kind, v, spec, obs, fields):
    """-> (outcome, Fail|None)"""
    ref = reference(kind, v, spec)
    inp = {'kind': kind, 'value': enc(kind, v), 'spec': spec}
    if 'panic' in obs or 'crash' in obs or 'hang' in obs:
        msg = C.norm_obs(obs).get('panic', 'crash/hang')
        return 'panic', C.Fail(PROP, 'fspec/%s · obs=panic "%s"' % (kind, msg[:60]), 'fspec', inp, obs, list(ref))
    if 'err' in obs:
        if ref[0] == 'err':
            return 'both-reject', None
        return 'over-reject', C.Fail(PROP, 'fspec/%s · ref=ok · obs=err(%s) · %s' % (kind, obs['err'].split('(')[0], features(fields)), 'fspec', inp, obs, list(ref))
    if ref[0] == 'err':
        return 'over-accept', C.Fail(PROP, 'fspec/%s · ref=err · obs=ok · %s' % (kind, features(fields)), 'fspec', inp, obs, list(ref))
    if obs['ok'] == ref[1]:
        return 'equal', None
    return 'differ', C.Fail(PROP, 'fspec/%s · ref=ok · obs=ok · text differs · %s' % (kind, features(fields)), 'fspec', inp, obs, list(ref))


def spec_product(tier):
    d = DOM[tier]
    seen = set()
    for combo in itertools.product(*[d[k] for k in ORDER]):
        spec = ''.join(combo)
        if spec in seen:
            continue
        seen.add(spec)
        yield spec, dict(zip(ORDER, combo))


def run_job(job):
    r = C.Result()
    kind_job = job[0]
    if kind_job == 'bigprec':
        reqs = [('f', v, '.%d%s' % (p, t), {'typ': t}) for v in [5e-324, 2.0 ** -768, 1e-300, 1e-215, 0.1, 1.7976931348623157e308, 2.0 ** -1000 * 3] for p in (766, 767, 768, 769, 800, 1074, 1075, 1100)
                for t in ('f', 'e', '%', 'g')]
    elif kind_job == 'sprod':
        # text values: width, precision and padding are counted in characters, never in bytes
        reqs = [('s', v, f + w + p + t, {'typ': t}) for v in STRS2 for f in ['', '<', '>', '^', 'x<', 'é^', '0'] for w in [''] + [str(i) for i in range(0, 9)]
                for p in [''] + ['.%d' % i for i in range(0, 10)] for t in ['', 's']]
    elif kind_job == 'prod':
        specs = job[1]
        vals = value_reqs()
        reqs = [(k, v, spec, fields) for spec, fields in specs for k, v in vals]
    else:
        sigma, n, shard = job[1], job[2], job[3]
        reqs = [(k, v, t, None) for t, _ in X.shard_strings(sigma, n, shard) for k, v in MAL_VALUES]
    res = C.run_worker(['fspec\t%s\t%s\t%s' % (k, C.hx(spec), enc(k, v)) for k, v, spec, _ in reqs])
    for (k, v, spec, fields), obs in zip(reqs, res):
        out, fail = judge(k, v, spec, obs, fields)
        r.evaluations += 1
        r.outcomes['%s:%s:%s' % (kind_job, k, out)] += 1
        if out == 'equal':
            r.nontrivial += 1
        if fail is not None:
            r.fails.append(fail)
    if reqs:
        k, v, spec, _ = reqs[len(reqs) // 2]
        r.samples.append({'spec': spec, 'value': repr(v), 'python': list(reference(k, v, spec))})
    r.by_bound[kind_job] += len(reqs)
    r.states = r.transitions = r.validated = r.evaluations
    return r


def run(tier, seed):
    t0 = time.time()
    jobs = [('prod', ch) for ch in X.chunks(spec_product(tier), 1500)]
    nspecs = sum(len(j[1]) for j in jobs)
    jobs.append(('sprod',))
    jobs.append(('bigprec',))
    n = 3 if tier == 'quick' else 5
    jobs += [('mal', MAL_SIGMA, n, s) for s in X.prefix_shards(MAL_SIGMA, n, 1 if tier == 'quick' else 2)]
    total = C.Result()
    for r in C.pmap(run_job, jobs):
        total.merge(r)
    total.extra['distinct_specs_in_product'] = nspecs
    rule = ('spec product [[fill]align][sign][z][#][0][width][grouping][.precision][type] over the per-field domains %s (%d distinct spec texts) x %d values '
            '(ints %r, floats %r, strings %r, booleans), the text product 7 multi-byte strings x 7 fill/align forms x widths 0..8 x precisions 0..9 x {'', s}, plus every string of length<=%d over %r x 4 values; real FormatSpec::parse+format_* vs '
            'format(value, spec); non-trivial = both sides produced the same text (a formatting actually happened); distinct = distinct (spec, value)'
            % (json.dumps(DOM[tier], ensure_ascii=False), nspecs, len(value_reqs()), INTS, FLOATS, STRS, n, ''.join(MAL_SIGMA)))
    return C.finish(PROP, tier, seed, t0, total, rule,
                    ['CPython 3.11 format() under the C locale defines the reference', 'ValueError/OverflowError/TypeError on the Python side <=> Err on the Rust side'],
                    C.py_version())


def replay(path):
    case = json.load(open(path))['case']
    inp = case['input']
    k, spec = inp['kind'], inp['spec']
    if k == 'i':
        v = int(inp['value'])
    elif k == 'f':
        v = struct.unpack('<d', struct.pack('<Q', int(inp['value'], 16)))[0]
    elif k == 's':
        v = bytes.fromhex(inp['value']).decode()
    else:
        v = inp['value'] == '1'
    outs = []
    for _ in range(2):
        obs = C.run_worker(['fspec\t%s\t%s\t%s' % (k, C.hx(spec), enc(k, v))])[0]
        outs.append((obs, judge(k, v, spec, obs, None)))
    if json.dumps(outs[0][0], sort_keys=True) != json.dumps(outs[1][0], sort_keys=True):
        raise C.Machinery('replay is not deterministic')
    out, fail = outs[0][1]
    print('replay format(%r, %r): rust=%s python=%s -> %s' % (v, spec, json.dumps(outs[0][0], ensure_ascii=False), reference(k, v, spec), out))
    if fail is not None:
        print('VIOLATION property=%s replay=%s' % (PROP, path))
        return 1
    return 0
