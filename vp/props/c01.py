"""C01 — every valid Python program parses to the reference AST.
E-DERIV over G_ref: every sentence with at most d non-default alternatives, in Module / Interactive / Expression mode,
plus soft-keyword and identifier-alphabet post-passes; CPython 3.11 decides validity and supplies the reference tree."""
import time, json, hashlib, ast
from .. import common as C, gref, corpus as K, astcmp as A, explore as X

PROP = 'C01'
CONFIGS = ('default',)
SOFT = ['match', 'case', 'type', '_']
IDENTS = ['é', '名', 'ﬁ', '__x', 'print', 'async_']


# lexeme alphabet of the E-STR job: concatenated WITHOUT separators, so token adjacency (1if, a.b, 1.real, 0x1for, 'not'+'a' = nota),
# every physical-line join and every newline form is exercised; only the texts CPython accepts are judged
LEX = ['a', 'b', '1', '0', '1.', '.5', '1e3', '1j', '0x1f', "'s'", "f'{a}'", "b'x'", '(', ')', '[', ']', '{', '}', ',', ':', ';', '=', '.', '*', '**', '+', '-', '~',
       '<', '==', '@', '->', ':=', '...', '+=', 'not', 'and', 'if', 'else', 'for', 'in', 'is', 'lambda', 'pass', 'del', 'return', 'def', 'class', 'match', 'case', 'type',
       'await', 'async', 'yield', 'import', 'from', 'as', 'with', 'global', 'while', 'try', 'except', 'finally', 'raise', 'None', ' ', '\n', '\n ', '\\\n', '\r',
       '\r\n', '\\\r', '\t', '#c', '\x0c', 'é', "'é€'", '#é€']
LEX_N = {'quick': 3, 'thorough': 4}


def h64(s):
    return int.from_bytes(hashlib.blake2b(s.encode('utf-8', 'surrogatepass'), digest_size=8).digest(), 'big')


def variants(toks, tier, cost=0):
    """yield (tag, tokens): the sentence itself and its post-pass variants (a post-pass counts as one more deviation:
    it is applied to sentences of cost <= 2 only, so the thorough tier explores cost<=3 bases + cost<=2 variants)"""
    yield 'base', toks
    if cost > 2:
        return
    names = [i for i, t in enumerate(toks) if gref.is_name_token(t)]
    for i in names:
        for s in SOFT:
            yield 'soft', toks[:i] + (s,) + toks[i + 1:]
    if names:
        # identifier alphabet: every name position x every exemplar would be |names| x 6; the alphabet matters per position kind,
        # so each exemplar is placed at every position once
        for i in names:
            for s in (IDENTS if tier == 'thorough' else IDENTS[:3]):
                yield 'ident', toks[:i] + (s,) + toks[i + 1:]


ALIAS_MARK = 'zzalias695zz'


def _split_tparams(toks):
    items, cur, depth = [], [], 0
    for t in toks:
        if t in ('(', '[', '{'):
            depth += 1
        elif t in (')', ']', '}'):
            depth -= 1
        if t == ',' and depth == 0:
            items.append(cur)
            cur = []
        else:
            cur.append(t)
    if cur:
        items.append(cur)
    return items


def _tparam_nodes(toks):
    out = []
    for it in _split_tparams(toks):
        if it[0] == '*':
            out.append(('TypeVarTuple', {'name': ('s', it[1])}))
        elif it[0] == '**':
            out.append(('ParamSpec', {'name': ('s', it[1])}))
        else:
            bound = None
            if len(it) > 1 and it[1] == ':':
                b = ast.parse(' '.join(it[2:]).encode('utf-8'), mode='eval')
                bound = A.PyDump().node(b.body)
            out.append(('TypeVar', {'name': ('s', it[0]), 'bound': bound}))
    return out


def erase695(text):
    """PEP 695 is not known to CPython 3.11. Erase the type-parameter lists (and turn `type X[...] = v` into a marked assignment) so that
    3.11 can supply the rest of the reference tree; returns (erased text, per-def/class type-parameter token lists in source order, found?)."""
    found = False
    defs = []      # one entry per 'def'/'class' token in source order: token list of its type parameters, or None
    out_lines = []
    for line in text.split('\n'):
        indent = line[:len(line) - len(line.lstrip(' \t'))]
        toks = line.strip(' \t').split(' ') if line.strip(' \t') else []
        res = []
        i = 0
        stmt_start = True
        while i < len(toks):
            t = toks[i]
            if t in ('def', 'class') and i + 2 < len(toks):
                res += [t, toks[i + 1]]
                if toks[i + 2] == '[':
                    depth, j = 0, i + 2
                    while j < len(toks):
                        if toks[j] in ('[', '(', '{'):
                            depth += 1
                        elif toks[j] in (']', ')', '}'):
                            depth -= 1
                            if depth == 0:
                                break
                        j += 1
                    defs.append(toks[i + 3:j])
                    found = True
                    i = j + 1
                else:
                    defs.append(None)
                    i += 2
                stmt_start = False
                continue
            if t == 'type' and stmt_start and i + 2 < len(toks) and toks[i + 2] in ('=', '['):
                name = toks[i + 1]
                tp = []
                j = i + 2
                if toks[j] == '[':
                    depth = 0
                    while j < len(toks):
                        if toks[j] in ('[', '(', '{'):
                            depth += 1
                        elif toks[j] in (']', ')', '}'):
                            depth -= 1
                            if depth == 0:
                                break
                        j += 1
                    tp = toks[i + 3:j]
                    j += 1
                if j < len(toks) and toks[j] == '=':
                    res.append('%s%d_%s' % (ALIAS_MARK, len(ALIASES_TMP), name))
                    ALIASES_TMP.append(tp)
                    found = True
                    i = j
                    stmt_start = False
                    continue
            res.append(t)
            stmt_start = t in (';', ':')
            i += 1
        out_lines.append(indent + ' '.join(res))
    return '\n'.join(out_lines), defs, found


ALIASES_TMP = []


class PyDump695(A.PyDump):
    def __init__(self, defs_by_node, aliases):
        super().__init__(None)
        self.defs_by_node = defs_by_node
        self.aliases = aliases

    def node(self, n):
        if isinstance(n, ast.Assign) and len(n.targets) == 1 and isinstance(n.targets[0], ast.Name) and n.targets[0].id.startswith(ALIAS_MARK):
            k, name = n.targets[0].id[len(ALIAS_MARK):].split('_', 1)
            return ('TypeAlias', {'name': ('Name', {'id': ('s', name), 'ctx': ('id', 'Store')}), 'type_params': _tparam_nodes(self.aliases[int(k)]), 'value': self.node(n.value)})
        out = super().node(n)
        if id(n) in self.defs_by_node:
            out[1]['type_params'] = _tparam_nodes(self.defs_by_node[id(n)])
        return out


def reference695(text):
    """reference tree of a sentence that uses PEP 695 forms, or None"""
    del ALIASES_TMP[:]
    try:
        erased, defs, found = erase695(text)
        if not found:
            return None
        tree = ast.parse(erased.encode('utf-8'))
        nodes = sorted((n for n in ast.walk(tree) if isinstance(n, (ast.FunctionDef, ast.AsyncFunctionDef, ast.ClassDef))), key=lambda n: (n.lineno, n.col_offset))
        if len(nodes) != len(defs):
            return None
        by_node = {id(n): tp for n, tp in zip(nodes, defs) if tp}
        return drop_empty_type_params(('Module', {'body': PyDump695(by_node, list(ALIASES_TMP)).node(tree.body)}))
    except (SyntaxError, ValueError, IndexError):
        return None


def reference(text, mode):
    tree, err = K.cpython_parse(text, mode)
    if tree is None:
        if mode == 'exec' and ('[' in text or 'type ' in text):
            r695 = reference695(text)
            if r695 is not None:
                return r695, None
        return None, err
    d = A.PyDump()
    if mode == 'eval':
        return ('Expression', {'body': d.node(tree.body)}), None
    return ('Module', {'body': d.node(tree.body)}), None


def observed_tree(obs, mode):
    t = A.rs(obs['ok'])
    # t = ('Module'|'Expression'|'Interactive', {...}); the reference for interactive mode is the module body
    name, d = t
    if name in ('Module', 'Interactive'):
        return ('Module', {'body': d['body']})
    return ('Expression', {'body': d['body']})


def uses_695(tree):
    """does the *Rust* tree use PEP 695 syntax (type_params / TypeAlias)?"""
    for _, n in A.walk(tree):
        if n[0] == 'TypeAlias' or n[1].get('type_params'):
            return True
    return False


def drop_empty_type_params(t):
    if isinstance(t, list):
        return [drop_empty_type_params(x) for x in t]
    if isinstance(t, tuple) and len(t) == 2 and isinstance(t[1], dict):
        return (t[0], {k: drop_empty_type_params(v) for k, v in t[1].items() if not (k == 'type_params' and v == [])})
    return t


def judge(text, mode, obs):
    """-> (outcome, Fail|None). Only texts CPython accepts are judged."""
    pmode = {'exec': 'exec', 'single': 'exec', 'eval': 'eval'}[mode]
    ref, err = reference(text, pmode)
    inp = {'mode': mode, 'text': text}
    if K.is_bad(obs):
        return 'bad', C.Fail(PROP, 'parse/%s · obs=%s' % (mode, K.bad_kind(obs)), 'parse', inp, obs, 'no panic')
    if ref is None:
        return ('py-reject/rs-reject' if 'err' in obs else 'py-reject/rs-accept'), None
    if 'err' in obs and K.err_kind(obs) in ('Lexical(TabsAfterSpaces)', 'Lexical(DuplicateKeywordArgumentError)', 'Lexical(DuplicateArgumentError)'):
        # the property statement exempts the three things this parser rejects earlier or more strictly than the reference parser
        return 'excluded: ' + K.err_kind(obs), None
    if 'err' in obs:
        return 'over-reject', C.Fail(PROP, 'parse/%s · ref=ok · obs=err(%s)' % (mode, K.err_kind(obs)), 'parse', inp,
                                     {'err': K.err_kind(obs), 'off': obs.get('off')}, 'accepted by CPython')
    got = A.mask_spec_kinds(drop_empty_type_params(observed_tree(obs, mode)))
    ref = A.mask_spec_kinds(ref)
    if got == ref:
        return 'equal', None
    diff = A.firstdiff(got, ref)
    return 'tree-diff', C.Fail(PROP, 'parse/%s · ref=ok · obs=ok · %s: %s vs %s' % (mode, A.path_suffix(diff[0], 1), diff[1], diff[2]), 'parse', inp,
                               {'path': diff[0], 'rust': diff[1]}, {'python': diff[2]})


def modes_for(toks):
    return ('exec', 'single')


# header alphabet of the soft-keyword E-STR job: token sequences (space separated) placed in statement templates, so that every short
# shape of a match subject, a case pattern/guard, an inline block body and a line starting with match/case/type is met
HDR = ['a', '1', "'s'", '(', ')', '[', ']', '{', '}', ':', ',', '=', '.', '*', '|', 'lambda :', 'lambda a :', 'if', 'else', 'as', '_', 'match', 'case', 'type',
       'not', 'in', ':=', '**', '-', 'for', 'await']
HDR_TEMPLATES = ['%s\n', 'match %s :\n    case _ : pass\n', 'match a :\n    case %s : pass\n', 'if a : %s\n', 'a ; %s\n']
HDR_N = {'quick': 4, 'thorough': 5}
LAYOUT_N = {'quick': 4, 'thorough': 5}


def lex_texts(kind, n, shard):
    if kind == 'lex':
        for text, l in X.shard_strings(LEX, n, shard):
            yield text, 'lexemes n=%d' % l
    elif kind == 'dense':
        from .. import relcheck
        for i, (t, tag) in enumerate(relcheck.dense_family_texts(40 if n == 0 else 100)):
            if i % 16 == shard:
                yield t + '\n', tag
    elif kind == 'fstr':
        for i, t in enumerate(sorted(set(K.fstring_product(2 if n == 0 else 3)))):
            if i % 16 == shard:
                yield t, 'f-string concatenation product'
    elif kind == 'literals':
        # the literal corpus of C06 (quote runs and escapes in triple-quoted literals, prefixes, newline forms, concatenations): each is a valid
        # expression statement whose whole tree is compared here
        from . import c06
        for gen in (c06.quote_run_cases, c06.prefix_cases, c06.newline_cases, c06.concat_cases):
            for i, (g, t) in enumerate(gen('quick' if n == 0 else 'thorough')):
                if i % 16 == shard:
                    yield t, 'literal forms: ' + g
    elif kind == 'layout':
        from .. import relcheck
        for text, l in X.shard_strings(relcheck.LAYOUT_LEX, n, shard):
            yield text, 'layout lexemes n=%d' % l
    else:
        for text, l in X.shard_strings([x + ' ' for x in HDR], n, shard):
            for i, t in enumerate(HDR_TEMPLATES):
                yield t % text.rstrip(' '), 'header template %d n=%d' % (i, l)


def run_lex_shard(args):
    kind, n, shard = args
    r = C.Result()
    cases = []
    for text, l in lex_texts(kind, n, shard):
        r.transitions += 1
        # calibration: CPython's exec-mode reader appends one more newline to a text ending in CRLF (translate_newlines leaves c == 0 after a
        # skipped LF), so 'a\\<CR><LF>' is accepted while 'a\\<LF>' is "unexpected EOF". Validity cannot depend on the newline spelling: a text
        # is judged only when CPython gives the same verdict for it and for its LF-normalised spelling.
        norm = text.replace('\r\n', '\n').replace('\r', '\n') if '\r' in text else text
        for pm in ('exec', 'eval'):
            if K.cpython_parse(text, pm)[0] is None:
                continue
            if norm is not text and K.cpython_parse(norm, pm)[0] is None:
                r.info['newline-spelling-dependent CPython verdict (not judged)'] += 1
                continue
            cases.append((text, pm, l))
            if pm == 'exec':
                cases.append((text, 'single', l))
    hashes = set()
    for chunk in (cases[i:i + 4000] for i in range(0, len(cases), 4000)):
        res = C.run_worker(['parse\t%s\t%s' % (m, C.hx(t)) for t, m, _ in chunk])
        for (text, mode, l), obs in zip(chunk, res):
            out, fail = judge(text, mode, obs)
            r.evaluations += 1
            r.outcomes['%s:%s' % (mode, out)] += 1
            r.by_bound[l] += 1
            hashes.add(h64(mode + '\0' + text))
            r.validated += 1
            if fail is not None:
                r.fails.append(fail)
    r.extra['_hashes'] = hashes
    return r


def run_shard(args):
    if args[0] in ('lex', 'hdr', 'layout', 'literals', 'fstr', 'dense'):
        return run_lex_shard(args)
    paths, d, tier, start = args
    r = C.Result()
    hashes = set()
    seen = set()
    cases = []  # (text, mode, tag, cost)
    for path in paths:
        for toks, cost in K.sentences(path, d, start):
            r.transitions += 1
            for tag, vt in variants(toks, tier, cost):
                text = gref.render(vt)
                if text in seen:
                    continue
                seen.add(text)
                if start == 'exprfile':
                    cases.append((text, 'eval', tag, cost))
                else:
                    cases.append((text, 'exec', tag, cost))
                    if tag == 'base':
                        cases.append((text, 'single', tag, cost))
                        cases.append((gref.render(vt, gref.LAYOUTS['nofinalnl']), 'exec', 'nofinalnl', cost))
    for chunk in (cases[i:i + 4000] for i in range(0, len(cases), 4000)):
        res = C.run_worker(['parse\t%s\t%s' % (m, C.hx(t)) for t, m, _, _ in chunk])
        for (text, mode, tag, cost), obs in zip(chunk, res):
            out, fail = judge(text, mode, obs)
            r.evaluations += 1
            r.outcomes['%s:%s' % (mode, out)] += 1
            r.by_bound['%s cost=%d' % (tag, cost)] += 1
            if out in ('equal', 'tree-diff', 'over-reject'):
                hashes.add(h64(mode + '\0' + text))
                r.validated += 1
            if fail is not None:
                r.fails.append(fail)
            elif out == 'equal' and len(r.samples) < 1 and cost == d and tag == 'base':
                r.samples.append({'mode': mode, 'text': text})
    # H3: which productions of the compiled LR tables this shard's sentences reduce (measurement only, no verdict depends on it)
    covtexts = sorted({t for t, m, tag, cost in cases if tag == 'base' and m in ('exec', 'eval')})
    red = set()
    for chunk in (covtexts[i:i + 5000] for i in range(0, len(covtexts), 5000)):
        for o in C.run_worker(['cov\t' + C.hx(t) for t in chunk]):
            red.update(o.get('red', []))
    r.extra['_reduced'] = red
    r.extra['_hashes'] = hashes
    return r


def run(tier, seed):
    t0 = time.time()
    d = K.DEPTH[tier]
    total = C.Result()
    allh = set()
    jobs = []
    for start in ('file', 'exprfile'):
        shards = K.shards_for(d, start)
        for g in K.group_shards(shards, 400 if tier == 'thorough' else 96):
            jobs.append((g, d, tier, start))
    jobs += [('lex', LEX_N[tier], sh) for sh in X.prefix_shards(LEX, LEX_N[tier], 1 if tier == 'quick' else 2)]
    jobs += [('hdr', HDR_N[tier], sh) for sh in X.prefix_shards(HDR, HDR_N[tier], 2)]
    jobs += [('literals', 0 if tier == 'quick' else 1, k) for k in range(16)]
    jobs += [('fstr', 0 if tier == 'quick' else 1, k) for k in range(16)]
    jobs += [('dense', 0 if tier == 'quick' else 1, k) for k in range(16)]
    from .. import relcheck
    jobs += [('layout', LAYOUT_N[tier], sh) for sh in X.prefix_shards(relcheck.LAYOUT_LEX, LAYOUT_N[tier], 1)]
    reduced = set()
    for r in C.pmap(run_shard, jobs):
        allh |= r.extra.pop('_hashes')
        reduced |= r.extra.pop('_reduced', set())
        total.merge(r)
    total.states = len(allh)
    total.nontrivial = len(allh)
    from .. import gimpl
    prods = gimpl.productions()
    live = set(gimpl.live_productions(prods))
    missing = sorted(live - reduced)
    total.extra['grammar_coverage'] = {'productions_in_python_rs': len(prods), 'reachable_productions': len(live), 'reachable_productions_reduced_by_the_corpus': len(reduced & live),
                                       'reduced_but_not_counted_reachable': len(reduced - live), 'not_reduced': ['%d: %s' % (i, prods[i][:110]) for i in missing[:400]]}
    rule = ('E-DERIV over G_ref (%d alternatives, start symbols file and expression): every derivation with at most %d non-default alternatives (transitions = derivations), '
            'each also with every single NAME position replaced by match/case/type/_ and by the identifier exemplars, rendered and parsed in Module + Interactive mode '
            '(Expression mode for the expression start symbol) and without the final newline; states = distinct_nontrivial = distinct (mode, text) pairs that CPython 3.11 accepts '
            '(those are the judged ones); PEP 695 sentences (which CPython 3.11 does not know) are judged against the reference obtained by erasure: type-parameter lists removed and '
            '"type X = v" rewritten to an assignment, parsed by CPython, then re-inserted structurally; plus E-STR: every concatenation (no separators) of <=%d lexemes of a %d-lexeme alphabet '
            '(names, numbers, strings, operators, keywords, six newline/continuation forms, tab, form feed, comment) that CPython accepts, in Module/Interactive/Expression mode; and every sequence of <=%d tokens of a %d-token header alphabet '
            '(brackets, colon, comma, lambda, if/else/as, match/case/type, walrus, star) placed in %d statement templates (a statement of its own, a match subject, a case pattern, an inline '
            'block body, after a semicolon); and every concatenation of <=%d lexemes of the 16-lexeme layout alphabet (indentation pieces, continuations, line breaks, comment, form feed, block '
            'opener, brackets, BOM); and the literal-form corpus of C06 (quote runs/escapes in triple-quoted literals, prefixes, newline forms, concatenations)' % (gref.n_alternatives(), d, LEX_N[tier], len(LEX), HDR_N[tier], len(HDR), len(HDR_TEMPLATES), LAYOUT_N[tier]))
    return C.finish(PROP, tier, seed, t0, total, rule,
                    ['CPython 3.11 ast.parse(bytes) defines validity and the reference tree (interactive mode: the module-mode tree)',
                     'derive(Debug) is faithful; canonicalisers in vp/astcmp.py'], C.py_version())


def replay(path):
    case = json.load(open(path))['case']
    inp = case['input']
    outs = []
    for _ in range(2):
        obs = C.run_worker(['parse\t%s\t%s' % (inp['mode'], C.hx(inp['text']))])[0]
        outs.append((obs, judge(inp['text'], inp['mode'], obs)))
    if json.dumps(outs[0][0], sort_keys=True) != json.dumps(outs[1][0], sort_keys=True):
        raise C.Machinery('replay is not deterministic')
    out, fail = outs[0][1]
    print('replay %r (%s): %s%s' % (inp['text'], inp['mode'], out, '' if fail is None else ' · ' + fail.sig))
    if fail is not None:
        print('VIOLATION property=%s replay=%s' % (PROP, path))
        return 1
    return 0
