"""C01 — every valid Python program parses to the reference AST.
E-DERIV over G_ref: every sentence with at most d non-default alternatives, in Module / Interactive / Expression mode,
plus soft-keyword and identifier-alphabet post-passes; CPython 3.11 decides validity and supplies the reference tree."""
import time, json, hashlib, ast
from .. import common as C, gref, corpus as K, astcmp as A

PROP = 'C01'
CONFIGS = ('default',)
SOFT = ['match', 'case', 'type', '_']
IDENTS = ['é', '名', 'ﬁ', '__x', 'print', 'async_']


def h64(s):
    return int.from_bytes(hashlib.blake2b(s.encode('utf-8', 'surrogatepass'), digest_size=8).digest(), 'big')


def variants(toks, tier, cost=0):
    """yield (tag, tokens): the sentence itself and its post-pass variants (a post-pass counts as one more deviation:
    it is applied to sentences of cost <= 2 only, so the thorough tier explores cost<=3 bases + cost<=2 variants)"""
    yield 'base', toks
    if cost > 2:
        return
    names = [i for i, t in enumerate(toks) if gref.is_name_token(t)]
    for i in names:
        for s in SOFT:
            yield 'soft', toks[:i] + (s,) + toks[i + 1:]
    if names:
        # identifier alphabet: every name position x every exemplar would be |names| x 6; the alphabet matters per position kind,
        # so each exemplar is placed at every position once
        for i in names:
            for s in (IDENTS if tier == 'thorough' else IDENTS[:3]):
                yield 'ident', toks[:i] + (s,) + toks[i + 1:]


def reference(text, mode):
    tree, err = K.cpython_parse(text, mode)
    if tree is None:
        return None, err
    d = A.PyDump()
    if mode == 'eval':
        return ('Expression', {'body': d.node(tree.body)}), None
    return ('Module', {'body': d.node(tree.body)}), None


def observed_tree(obs, mode):
    t = A.rs(obs['ok'])
    # t = ('Module'|'Expression'|'Interactive', {...}); the reference for interactive mode is the module body
    name, d = t
    if name in ('Module', 'Interactive'):
        return ('Module', {'body': d['body']})
    return ('Expression', {'body': d['body']})


def uses_695(tree):
    """does the *Rust* tree use PEP 695 syntax (type_params / TypeAlias)?"""
    for _, n in A.walk(tree):
        if n[0] == 'TypeAlias' or n[1].get('type_params'):
            return True
    return False


def drop_empty_type_params(t):
    if isinstance(t, list):
        return [drop_empty_type_params(x) for x in t]
    if isinstance(t, tuple) and len(t) == 2 and isinstance(t[1], dict):
        return (t[0], {k: drop_empty_type_params(v) for k, v in t[1].items() if not (k == 'type_params' and v == [])})
    return t


def judge(text, mode, obs):
    """-> (outcome, Fail|None). Only texts CPython accepts are judged."""
    pmode = {'exec': 'exec', 'single': 'exec', 'eval': 'eval'}[mode]
    ref, err = reference(text, pmode)
    inp = {'mode': mode, 'text': text}
    if K.is_bad(obs):
        return 'bad', C.Fail(PROP, 'parse/%s · obs=%s' % (mode, K.bad_kind(obs)), 'parse', inp, obs, 'no panic')
    if ref is None:
        return ('py-reject/rs-reject' if 'err' in obs else 'py-reject/rs-accept'), None
    if 'err' in obs:
        return 'over-reject', C.Fail(PROP, 'parse/%s · ref=ok · obs=err(%s)' % (mode, K.err_kind(obs)), 'parse', inp,
                                     {'err': K.err_kind(obs), 'off': obs.get('off')}, 'accepted by CPython')
    got = A.mask_spec_kinds(drop_empty_type_params(observed_tree(obs, mode)))
    ref = A.mask_spec_kinds(ref)
    if got == ref:
        return 'equal', None
    diff = A.firstdiff(got, ref)
    return 'tree-diff', C.Fail(PROP, 'parse/%s · ref=ok · obs=ok · %s: %s vs %s' % (mode, A.path_suffix(diff[0], 1), diff[1], diff[2]), 'parse', inp,
                               {'path': diff[0], 'rust': diff[1]}, {'python': diff[2]})


def modes_for(toks):
    return ('exec', 'single')


def run_shard(args):
    paths, d, tier, start = args
    r = C.Result()
    hashes = set()
    seen = set()
    cases = []  # (text, mode, tag, cost)
    for path in paths:
        for toks, cost in K.sentences(path, d, start):
            r.transitions += 1
            for tag, vt in variants(toks, tier, cost):
                text = gref.render(vt)
                if text in seen:
                    continue
                seen.add(text)
                if start == 'exprfile':
                    cases.append((text, 'eval', tag, cost))
                else:
                    cases.append((text, 'exec', tag, cost))
                    if tag == 'base':
                        cases.append((text, 'single', tag, cost))
                        cases.append((gref.render(vt, gref.LAYOUTS['nofinalnl']), 'exec', 'nofinalnl', cost))
    for chunk in (cases[i:i + 4000] for i in range(0, len(cases), 4000)):
        res = C.run_worker(['parse\t%s\t%s' % (m, C.hx(t)) for t, m, _, _ in chunk])
        for (text, mode, tag, cost), obs in zip(chunk, res):
            out, fail = judge(text, mode, obs)
            r.evaluations += 1
            r.outcomes['%s:%s' % (mode, out)] += 1
            r.by_bound['%s cost=%d' % (tag, cost)] += 1
            if out in ('equal', 'tree-diff', 'over-reject'):
                hashes.add(h64(mode + '\0' + text))
                r.validated += 1
            if fail is not None:
                r.fails.append(fail)
            elif out == 'equal' and len(r.samples) < 1 and cost == d and tag == 'base':
                r.samples.append({'mode': mode, 'text': text})
    r.extra['_hashes'] = hashes
    return r


def run(tier, seed):
    t0 = time.time()
    d = K.DEPTH[tier]
    total = C.Result()
    allh = set()
    jobs = []
    for start in ('file', 'exprfile'):
        shards = K.shards_for(d, start)
        for g in K.group_shards(shards, 400 if tier == 'thorough' else 96):
            jobs.append((g, d, tier, start))
    for r in C.pmap(run_shard, jobs):
        allh |= r.extra.pop('_hashes')
        total.merge(r)
    total.states = len(allh)
    total.nontrivial = len(allh)
    rule = ('E-DERIV over G_ref (%d alternatives, start symbols file and expression): every derivation with at most %d non-default alternatives (transitions = derivations), '
            'each also with every single NAME position replaced by match/case/type/_ and by the identifier exemplars, rendered and parsed in Module + Interactive mode '
            '(Expression mode for the expression start symbol) and without the final newline; states = distinct_nontrivial = distinct (mode, text) pairs that CPython 3.11 accepts '
            '(those are the judged ones); PEP 695 sentences are accepted/rejected-only here' % (gref.n_alternatives(), d))
    return C.finish(PROP, tier, seed, t0, total, rule,
                    ['CPython 3.11 ast.parse(bytes) defines validity and the reference tree (interactive mode: the module-mode tree)',
                     'derive(Debug) is faithful; canonicalisers in vp/astcmp.py'], C.py_version())


def replay(path):
    case = json.load(open(path))['case']
    inp = case['input']
    outs = []
    for _ in range(2):
        obs = C.run_worker(['parse\t%s\t%s' % (inp['mode'], C.hx(inp['text']))])[0]
        outs.append((obs, judge(inp['text'], inp['mode'], obs)))
    if json.dumps(outs[0][0], sort_keys=True) != json.dumps(outs[1][0], sort_keys=True):
        raise C.Machinery('replay is not deterministic')
    out, fail = outs[0][1]
    print('replay %r (%s): %s%s' % (inp['text'], inp['mode'], out, '' if fail is None else ' · ' + fail.sig))
    if fail is not None:
        print('VIOLATION property=%s replay=%s' % (PROP, path))
        return 1
    return 0
