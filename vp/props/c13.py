"""C13 — row/column locations are correct and independent of the locator used.
(1) explicit-state search of the LinearLocator cursor machine (state read through hook H4) on every text over {a, é, LF, CR, U+FEFF}
    up to length n: every locate(o >= cursor) / locate_only transition against a reference line/character counter, and the
    abstraction 'state is a function of the cursor' asserted;
(2) every tree of the G_ref corpus under layouts incl. a line-spread layout (tree order != source order across lines), default and
    all-nodes builds: LinearLocator fold == RandomLocator fold == reference rendering; error offsets of rejected sentences."""
import time, json
from .. import common as C, gref, corpus as K, relcheck as R
from . import c01

PROP = 'C13'
CONFIGS = ('default', 'all-nodes')
LAYOUTS = ['plain', 'crlf', 'cr', 'bom', 'multibyte', 'spread', 'spread-crlf']
MACHINE_N = {'quick': 6, 'thorough': 8}
MODE_LAYOUTS = ['plain', 'crlf', 'bom', 'multibyte', 'spread-crlf']


def run_shard(args):
    if args[0] == 'machine':
        d = C.run_engine('c13m', {'n': args[1]})
        return C.engine_to_result(PROP, d, 'c13m')
    if args[0] == 'fstr':
        cfg = args[1]
        texts = [(t, cfg + ' f-string product') for t in K.fstring_product(3 if args[2] == 'thorough' else 2)]
    else:
        _, paths, d, cfg = args[:4]
        mode = args[4] if len(args) > 4 else 'exec'
        # Mod::Expression / Mod::Interactive roots: the expression corpus in expression mode, the statement corpus in interactive mode
        texts = [(t, '%s %s %s cost=%d' % (cfg, mode, ln, c)) for t, c, ln in R.corpus_texts(paths, d, 'exprfile' if mode == 'eval' else 'file', LAYOUTS if mode == 'exec' else MODE_LAYOUTS)]
    mode = args[4] if args[0] == 'corpus' and len(args) > 4 else 'exec'
    r = R.run_texts(PROP, 'c13', texts, cfg=cfg, sig_prefix=cfg + ('' if mode == 'exec' else '/' + mode) + ' · ', extra_args='' if mode == 'exec' else '\t' + mode)
    r.extra['_hashes'] = {c01.h64(t) for t, _ in texts}
    if texts:
        r.samples.append(texts[len(texts) // 2][0])
    return r


def run(tier, seed):
    t0 = time.time()
    d = K.DEPTH[tier]
    jobs = [('machine', MACHINE_N[tier])]
    for cfg in CONFIGS:
        jobs.append(('fstr', cfg, tier))
        for g in K.group_shards(K.shards_for(d, 'file'), 400 if tier == 'thorough' else 64):
            jobs.append(('corpus', g, d, cfg))
        for g in K.group_shards(K.shards_for(d, 'exprfile'), 32):
            jobs.append(('corpus', g, d, cfg, 'eval'))
        for g in K.group_shards(K.shards_for(d - 1, 'file'), 32):
            jobs.append(('corpus', g, d - 1, cfg, 'single'))
    total = C.Result()
    allh = set()
    mstates = 0
    for r in C.pmap(run_shard, jobs):
        h = r.extra.pop('_hashes', None)
        if h is None:
            mstates = r.states
        else:
            allh |= h
            r.states = 0
        total.merge(r)
    total.states = mstates + len(allh)
    total.nontrivial = total.validated + mstates
    total.extra['locator_machine_states'] = mstates
    rule = ('(1) LinearLocator cursor machine: for every text over {a, é, LF, CR, U+FEFF} of length<=%d, BFS over the states reachable by locate(o) for every '
            'character-boundary o >= cursor (states read through LinearLocator::verif_state, de-duplicated; histories replayed on fresh locators), locate_only from every state; '
            '(2) every G_ref sentence with <=%d non-default alternatives under layouts %s, default and all-nodes builds (module mode; the expression sub-grammar in expression mode and, one level lower, interactive mode): folds by both locators vs the reference rendering; '
            'every sequence of <=2/3 literals of the 19-literal f-string set (one line / spread over lines / as call arguments); rejected sentences: both locators on the error offset; states = machine states + distinct texts' % (MACHINE_N[tier], d, LAYOUTS))
    return C.finish(PROP, tier, seed, t0, total, rule,
                    ['reference line/character counter in the harness (CR, LF, CRLF one break; BOM not counted; characters, not bytes)',
                     'the byte ranges themselves are C02\'s subject; here they are taken as given'])


def replay(path):
    case = json.load(open(path))['case']
    if case['op'] == 'c13m':
        hits = []
        for _ in range(2):
            d = C.run_engine('c13m', {'n': MACHINE_N['thorough' if 'thorough' in path else 'quick']})
            hits.append([f for f in d['fails'] if f[0] == case['signature'] and f[1] == case['input']])
        if hits[0] != hits[1]:
            raise C.Machinery('replay is not deterministic')
        print('replay: %s' % (hits[0][:1] or 'holds'))
        if hits[0]:
            print('VIOLATION property=%s replay=%s' % (PROP, path))
            return 1
        return 0
    head = case['signature'].split(' · ')[0]
    cfg, _, mode = head.partition('/')
    return R.replay_text(PROP, 'c13', path, cfg=cfg if cfg in CONFIGS else 'default', sig_prefix=head + ' · ', extra_args='\t' + mode if mode else '')
