"""Shared driver for properties decided by a Rust-side relation on each corpus text (C09 C11 C12 C13):
the worker op returns {"ok": n} or {"n": n, "fail": [[relation, observed, expected], ...]} (or {"skip": why})."""
import json, re
from . import common as C, gref, corpus as K, explore as X
from .props import c01

CHAR_SIGMA = ['a', '1', '_', '.', '(', ')', '[', ']', '{', '}', ':', '=', '!', "'", '"', '\\', '#', ' ', '\t', '\n', '\r', 'é', '\ufeff']

# layout-sensitive lexemes: indentation pieces, both continuation forms, every line break, comment, form feed, block opener, brackets, an
# unterminated triple quote and the BOM: the strings over them drive the indentation / line-joining / bracket-depth logic of the lexer
LAYOUT_LEX = [' ', '  ', '\t', '\\\n', '\\\r\n', '\n', '\r', 'a', ':', '#c', '\x0c', 'if a:', '(', ')', "'''", '\ufeff']


def dense_family_texts(K=80):
    """every size k = 1..K of a set of one-parameter text families, plus the same text with a multi-byte character in place of the last plain one"""
    fam = {
        'name': lambda k: 'a' * k, 'int': lambda k: '9' * k, 'int-zeros': lambda k: '0' * k, 'hex': lambda k: '0x' + 'f' * k, 'hex-1': lambda k: '0x1' + '0' * k,
        'octal': lambda k: '0o' + '7' * k, 'octal-2': lambda k: '0o2' + '0' * k, 'binary': lambda k: '0b' + '1' * k, 'float-digits': lambda k: '1.' + '0' * (k - 1) + '1',
        'float-long': lambda k: '9' * k + '.5e3', 'imaginary': lambda k: '1' * k + 'j', 'underscores': lambda k: '1' + '_1' * k,
        'string': lambda k: "'" + 'x' * k + "'", 'bytes': lambda k: "b'" + 'x' * k + "'", 'string-escapes': lambda k: "'" + '\\n' * k + "'",
        'unicode-name': lambda k: "'\\N{" + 'A' * k + "}'", 'unicode-name-dash': lambda k: "'\\N{EM DASH}" + 'x' * k + "\\N{EM DASH}'",
        'fstring-text': lambda k: "f'" + 'x' * k + "{a}'", 'fstring-spec': lambda k: "f'{a:" + 'x' * k + "}{b}'", 'fstring-expr': lambda k: "f'{" + 'a' * k + "}'",
        'comment': lambda k: '#' + 'c' * k + '\na', 'comment-after': lambda k: 'a #' + 'c' * k, 'line-crlf': lambda k: 'a' * k + '\r\nb\r\n', 'line-cr': lambda k: 'a' * k + '\rb',
        'blank-lines': lambda k: 'a' + '\n' * k + 'b', 'blank-lines-in-block': lambda k: 'if a:\n x\n' + '\n' * k + ' y\n', 'comment-lines-in-block': lambda k: 'if a:\n x\n' + '#\n' * k + ' y\n',
        'blank-lines-in-brackets': lambda k: '(a,' + '\n' * k + ' b)', 'spaces': lambda k: 'a' + ' ' * k + '+ b', 'indent': lambda k: 'if a:\n' + ' ' * k + 'b\n', 'tabs': lambda k: 'if a:\n' + '\t' * k + 'b\n',
        'continuations': lambda k: 'a = 1' + ' \\\n' * k + ' + 1', 'parens': lambda k: '(' * k + 'a' + ')' * k, 'args': lambda k: 'f(' + 'a, ' * k + ')', 'kwargs': lambda k: 'f(' + ', '.join('k%d=1' % i for i in range(k)) + ')',
        'params-defaults': lambda k: 'def f(' + ', '.join('p%d=1' % i for i in range(k)) + '): pass', 'concat': lambda k: "'s' " * k, 'elif': lambda k: 'if a: pass\n' + 'elif a: pass\n' * k,
        'statements-in-else': lambda k: 'if a:\n b\nelse:\n if c:\n  d\n' + ' e\n' * k, 'dict': lambda k: '{' + 'a: a, ' * k + '}', 'dots': lambda k: 'a' + '.b' * k, 'decorators': lambda k: '@a\n' * k + 'def f(): pass',
        'semicolons': lambda k: 'a' + '; a' * k, 'with-items': lambda k: 'with a' + ', a' * k + ': pass', 'global': lambda k: 'global ' + ', '.join('g%d' % i for i in range(k + 1)),
    }
    out = []
    for name, f in fam.items():
        for k in range(1, K + 1):
            t = f(k)
            out.append((t, 'dense family %s' % name))
            for plain in ('x', 'c', 'a', 'A'):
                i = t.rfind(plain)
                if i >= 0 and not name.startswith(('int', 'hex', 'octal', 'binary', 'float', 'imaginary', 'underscores', 'bytes')):
                    out.append((t[:i] + 'é' + t[i + 1:], 'dense family %s (multi-byte)' % name))
                    break
    return out


def norm_relation(rel):
    """signature of a broken relation: offsets and node kinds stay, concrete numbers go"""
    return re.sub(r'\d+', 'N', rel)


def corpus_texts(paths, d, start, layouts=('plain',), variants=False):
    seen = set()
    for path in paths:
        for toks, cost in K.sentences(path, d, start):
            for ln in layouts:
                text = gref.render(toks, gref.LAYOUTS[ln])
                if text not in seen:
                    seen.add(text)
                    yield text, cost, ln


def run_texts(prop, op, texts, cfg='default', extra_args='', sig_prefix=''):
    """texts: list of (text, tag). -> Result"""
    r = C.Result()
    for chunk in (texts[i:i + 3000] for i in range(0, len(texts), 3000)):
        res = C.run_worker(['%s\t%s%s' % (op, C.hx(t), extra_args) for t, _ in chunk], cfg=cfg)
        for (text, tag), obs in zip(chunk, res):
            r.evaluations += 1
            r.by_bound[tag] += 1
            if K.is_bad(obs):
                r.outcomes['bad'] += 1
                r.fails.append(C.Fail(prop, '%s%s · obs=%s' % (sig_prefix, op, K.bad_kind(obs)), op, text, obs, 'no panic'))
                continue
            if 'skip' in obs:
                r.outcomes['skip'] += 1
                continue
            if 'ok' in obs:
                r.outcomes['held ' + obs.get('cls', '')] += 1
                r.transitions += obs['ok'] if isinstance(obs['ok'], int) else 1
                r.validated += 1
                continue
            r.outcomes['FAIL'] += 1
            r.transitions += obs.get('n', 1)
            seen = set()
            for rel, got, want in obs['fail']:
                sig = sig_prefix + norm_relation(rel)
                if sig in seen:
                    continue
                seen.add(sig)
                r.fails.append(C.Fail(prop, sig, op, text, {'relation': rel, 'observed': got}, {'expected': want}))
    return r


def replay_text(prop, op, path, cfg='default', extra_args='', sig_prefix=''):
    case = json.load(open(path))['case']
    text = case['input']
    outs = []
    for _ in range(2):
        r = run_texts(prop, op, [(text, 'replay')], cfg, extra_args, sig_prefix)
        outs.append(sorted((f.sig, json.dumps(f.obs, sort_keys=True)) for f in r.fails))
    if outs[0] != outs[1]:
        raise C.Machinery('replay is not deterministic')
    print('replay %r: %s' % (text, [s for s, _ in outs[0]] or 'holds'))
    if any(s == case['signature'] for s, _ in outs[0]):
        print('VIOLATION property=%s replay=%s' % (prop, path))
        return 1
    return 0
