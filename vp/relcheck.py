"""Shared driver for properties decided by a Rust-side relation on each corpus text (C09 C11 C12 C13):
the worker op returns {"ok": n} or {"n": n, "fail": [[relation, observed, expected], ...]} (or {"skip": why})."""
import json, re
from . import common as C, gref, corpus as K, explore as X
from .props import c01

CHAR_SIGMA = ['a', '1', '_', '.', '(', ')', '[', ']', '{', '}', ':', '=', '!', "'", '"', '\\', '#', ' ', '\t', '\n', '\r', 'é', '\ufeff']

# layout-sensitive lexemes: indentation pieces, both continuation forms, every line break, comment, form feed, block opener, brackets, an
# unterminated triple quote and the BOM: the strings over them drive the indentation / line-joining / bracket-depth logic of the lexer
LAYOUT_LEX = [' ', '  ', '\t', '\\\n', '\\\r\n', '\n', '\r', 'a', ':', '#c', '\x0c', 'if a:', '(', ')', "'''", '\ufeff']


def norm_relation(rel):
    """signature of a broken relation: offsets and node kinds stay, concrete numbers go"""
    return re.sub(r'\d+', 'N', rel)


def corpus_texts(paths, d, start, layouts=('plain',), variants=False):
    seen = set()
    for path in paths:
        for toks, cost in K.sentences(path, d, start):
            for ln in layouts:
                text = gref.render(toks, gref.LAYOUTS[ln])
                if text not in seen:
                    seen.add(text)
                    yield text, cost, ln


def run_texts(prop, op, texts, cfg='default', extra_args='', sig_prefix=''):
    """texts: list of (text, tag). -> Result"""
    r = C.Result()
    for chunk in (texts[i:i + 3000] for i in range(0, len(texts), 3000)):
        res = C.run_worker(['%s\t%s%s' % (op, C.hx(t), extra_args) for t, _ in chunk], cfg=cfg)
        for (text, tag), obs in zip(chunk, res):
            r.evaluations += 1
            r.by_bound[tag] += 1
            if K.is_bad(obs):
                r.outcomes['bad'] += 1
                r.fails.append(C.Fail(prop, '%s%s · obs=%s' % (sig_prefix, op, K.bad_kind(obs)), op, text, obs, 'no panic'))
                continue
            if 'skip' in obs:
                r.outcomes['skip'] += 1
                continue
            if 'ok' in obs:
                r.outcomes['held ' + obs.get('cls', '')] += 1
                r.transitions += obs['ok'] if isinstance(obs['ok'], int) else 1
                r.validated += 1
                continue
            r.outcomes['FAIL'] += 1
            r.transitions += obs.get('n', 1)
            seen = set()
            for rel, got, want in obs['fail']:
                sig = sig_prefix + norm_relation(rel)
                if sig in seen:
                    continue
                seen.add(sig)
                r.fails.append(C.Fail(prop, sig, op, text, {'relation': rel, 'observed': got}, {'expected': want}))
    return r


def replay_text(prop, op, path, cfg='default', extra_args='', sig_prefix=''):
    case = json.load(open(path))['case']
    text = case['input']
    outs = []
    for _ in range(2):
        r = run_texts(prop, op, [(text, 'replay')], cfg, extra_args, sig_prefix)
        outs.append(sorted((f.sig, json.dumps(f.obs, sort_keys=True)) for f in r.fails))
    if outs[0] != outs[1]:
        raise C.Machinery('replay is not deterministic')
    print('replay %r: %s' % (text, [s for s, _ in outs[0]] or 'holds'))
    if any(s == case['signature'] for s, _ in outs[0]):
        print('VIOLATION property=%s replay=%s' % (prop, path))
        return 1
    return 0
