#!/usr/bin/env python3.11
"""tools/mutate.py [--list] [--every K] [--only FILE_SUBSTR] [--out DIR]
Mechanical mutation trial (maintenance tool, not a registered check): small operator/constant mutations at sites of the anchor files of /repo,
one at a time. For each mutant: apply to /repo, run the repository's own suite (a mutant the suite kills is not interesting), otherwise run the
quick checks mapped to the file, record which report, and restore the file. Results: <out>/mutants.jsonl (one line per mutant).
/repo must be clean; it is restored after every mutant (and on exit)."""
import sys, os, re, json, subprocess, time, argparse, atexit

REPO = '/repo'
VERIF = os.path.join(os.path.dirname(os.path.abspath(__file__)), '..')
FILES = {
    'parser/src/lexer.rs': ['C01', 'C03', 'C05', 'C06', 'C08', 'C09', 'C10', 'C04'],
    'parser/src/string.rs': ['C01', 'C03', 'C04', 'C06', 'C07', 'C02', 'C13'],
    'parser/src/function.rs': ['C01', 'C04', 'C02'],
    'parser/src/soft_keywords.rs': ['C01', 'C10', 'C04', 'C03'],
    'parser/src/context.rs': ['C01', 'C11'],
    'parser/src/parser.rs': ['C09', 'C01', 'C03'],
    'ast/src/unparse.rs': ['C11'],
    'ast/src/optimizer.rs': ['C12'],
    'ast/src/source_locator.rs': ['C13'],
    'ast/src/generic.rs': ['C14', 'C01'],
    'ast/src/impls.rs': ['C14', 'C01', 'C11'],
    'core/src/source_code.rs': ['C13'],
    'vendored/src/source_location/line_index.rs': ['C15', 'C13'],
    'vendored/src/source_location/newlines.rs': ['C15', 'C13'],
    'vendored/src/text_size/range.rs': ['C15'],
    'vendored/src/text_size/size.rs': ['C15'],
    'literal/src/escape.rs': ['C16', 'C11'],
    'literal/src/char.rs': ['C16'],
    'literal/src/float.rs': ['C17', 'C18', 'C19'],
    'format/src/format.rs': ['C18', 'C20'],
    'format/src/cformat.rs': ['C19'],
}
OPS = [
    (r' <= ', ' < '), (r' < ', ' <= '), (r' >= ', ' > '), (r' > ', ' >= '), (r' == ', ' != '), (r' != ', ' == '),
    (r' && ', ' || '), (r' \|\| ', ' && '), (r' \+ 1\b', ' + 2'), (r' - 1\b', ' - 2'), (r' \+ 1\b', ''), (r' - 1\b', ''),
    (r'\btrue\b', 'false'), (r'\bfalse\b', 'true'), (r' \+= ', ' -= '), (r'\.saturating_sub\(', '.wrapping_sub('),
    (r'\b0\.\.', '1..'), (r'\.\.=', '..'),
]
SKIP_LINE = re.compile(r'^\s*(//|#\[|assert|debug_assert|use |pub use |mod |///)')


def sites():
    out = []
    for f in FILES:
        path = os.path.join(REPO, f)
        if not os.path.exists(path):
            continue
        lines = open(path).read().split('\n')
        end = len(lines)
        for i, l in enumerate(lines):
            if re.match(r'\s*#\[cfg\(test\)\]', l):
                end = i
                break
        for i in range(end):
            l = lines[i]
            if SKIP_LINE.match(l) or 'rustpython_parser_verif' in l or (i > 0 and 'rustpython_parser_verif' in lines[i - 1]):
                continue
            code = l.split('//')[0]
            # skip generic/type positions for comparison operators
            for k, (pat, rep) in enumerate(OPS):
                for m in re.finditer(pat, code):
                    if pat.strip() in ('<', '>', ' < ', ' > ') and ('->' in code or 'impl<' in code or 'fn ' in code or '::<' in code):
                        continue
                    out.append((f, i, m.start(), m.end(), rep, pat))
    return out


def sh(cmd, cwd, timeout):
    # own process group, so that a mutant whose tests do not terminate is stopped together with the test binaries it spawned
    p = subprocess.Popen(cmd, cwd=cwd, shell=True, stdout=subprocess.PIPE, stderr=subprocess.STDOUT, text=True, start_new_session=True)
    try:
        out, _ = p.communicate(timeout=timeout)
        return p.returncode, out
    except subprocess.TimeoutExpired:
        os.killpg(p.pid, 9)
        subprocess.run("pkill -9 -f /tmp/rustdoctest", shell=True)
        p.communicate()
        return 124, 'timeout'


def restore():
    subprocess.run('git -C /repo checkout -- . && git -C /repo clean -fdq parser/src/snapshots', shell=True)


def main():
    ap = argparse.ArgumentParser()
    ap.add_argument('--list', action='store_true')
    ap.add_argument('--every', type=int, default=25)
    ap.add_argument('--offset', type=int, default=0)
    ap.add_argument('--only', default='')
    ap.add_argument('--out', default=os.path.join(VERIF, 'seeded', 'mutants'))
    a = ap.parse_args()
    S = [s for s in sites() if a.only in s[0]]
    pick = S[a.offset::a.every]
    if a.list:
        print('%d sites, %d picked' % (len(S), len(pick)))
        for f, i, b, e, rep, pat in pick:
            print('%s:%d  %r -> %r' % (f, i + 1, pat, rep))
        return
    if subprocess.run('git -C /repo status --porcelain --untracked-files=no', shell=True, stdout=subprocess.PIPE, text=True).stdout.strip():
        sys.exit('/repo is not clean')
    os.makedirs(a.out, exist_ok=True)
    atexit.register(restore)
    log = open(os.path.join(a.out, 'mutants.jsonl'), 'a')
    for n, (f, i, b, e, rep, pat) in enumerate(pick):
        path = os.path.join(REPO, f)
        lines = open(path).read().split('\n')
        old = lines[i]
        lines[i] = old[:b] + rep + old[e:]
        open(path, 'w').write('\n'.join(lines))
        rec = {'file': f, 'line': i + 1, 'before': old.strip(), 'after': lines[i].strip(), 'op': '%s -> %s' % (pat, rep)}
        t0 = time.time()
        rc, out = sh('CARGO_NET_OFFLINE=true cargo test --workspace --no-fail-fast --offline 2>&1 | grep -E "^test result|^error" ', REPO, 600)
        failed = sum(int(x) for x in re.findall(r'(\d+) failed', out))
        if rc == 124 or out == 'timeout':
            rec['suite'] = 'killed by the suite (does not terminate within 600 s)'
        elif '\nerror' in '\n' + out or 'error:' in out or 'error[' in out:
            rec['suite'] = 'does not compile'
        elif failed:
            rec['suite'] = 'killed by the suite (%d failed)' % failed
        else:
            rec['suite'] = 'passes'
            subprocess.run('./check --setup >/dev/null 2>&1', cwd=VERIF, shell=True)
            rep_by = {}
            for p in FILES[f]:
                rc2, o2 = sh('./check %s --tier quick 2>&1' % p, VERIF, 1800)
                sig = re.search(r'signature: (.*)', o2)
                rep_by[p] = {'rc': rc2, 'violations': len(re.findall(r'^VIOLATION', o2, re.M)), 'first': sig.group(1)[:140] if sig else ''}
            rec['checks'] = rep_by
            rec['reported_by'] = [p for p, v in rep_by.items() if v['rc'] == 1]
            rec['machinery_errors'] = [p for p, v in rep_by.items() if v['rc'] not in (0, 1)]
        rec['secs'] = round(time.time() - t0)
        restore()
        log.write(json.dumps(rec, ensure_ascii=False) + '\n')
        log.flush()
        print('[%d/%d] %s:%d %s | %s | %s' % (n + 1, len(pick), f, i + 1, rec['op'], rec['suite'], rec.get('reported_by')), flush=True)
    subprocess.run('./check --setup >/dev/null 2>&1', cwd=VERIF, shell=True)


if __name__ == '__main__':
    main()
