#!/usr/bin/env python3
"""Regenerates /verif/MANIFEST.json from the table below (kept in one place so the manifest is always valid)."""
import json, os, subprocess

ROOT = os.path.dirname(os.path.dirname(os.path.abspath(__file__)))

# id -> (built?, technique, level text, level note, design ref)
P = {
    'C01': (True, 'deviation-bounded exhaustive enumeration of derivations of a reference grammar (E-DERIV, d<=2 quick / d<=3 thorough) with soft-keyword and identifier post-passes, every production and parent/child production pair of the compiled LR tables (E-PROD over G_impl, hook H3 coverage), exhaustive strings over lexeme / header-token / layout alphabets (E-STR), real parser in three modes vs the CPython 3.11 reference tree (PEP 695 by erasure)',
            'Every derivation of G_ref (358 alternatives) with at most d non-default alternatives is rendered, validated by CPython and parsed by the real parser; trees are compared node by node through a generic Debug-derived channel. Cost 2 covers every ordered pair (parent construct, child construct, position).',
            'CPython 3.11 ast.parse; derive(Debug); the canonicalisers in vp/astcmp.py; PEP 695 forms are not compared with a reference tree yet', '7/C01'),
    'C02': (True, 'the same deviation-bounded exhaustive enumeration x 9 layouts (LF/CRLF/CR/BOM/tab/multi-byte/comments/line-spread/no final newline) + a redundant parenthesis pair at every expression occurrence, the G_impl production sentences and the E-STR alphabets of C01, all-nodes-with-ranges build; every node checked structurally and against CPython positions converted to byte offsets',
            'Every node of every tree of every CPython-valid sentence inside the bound under every layout is checked for the structural clauses and for range equality with the reference extent.',
            'CPython 3.11 positions; pieces of an f-string are exempt from extent equality (3.11 gives each piece the extent of the whole literal)', '7/C02'),
    'C03': (True, 'bounded-exhaustive enumeration: every string <=4/5 over a 26-character alphabet (<=5/6 over 14) x 3 modes x 4 start offsets inside the worker, all lexeme and layout-lexeme sequences, every literal form of the C06 escape corpus, all single-character mutations (deletion, duplication, transposition, multi-byte replacement/insertion) of corpus sentences; scaling families in sub-processes with deterministic step counts (hook H2)',
            'No input inside the bound panics (overflow checks on), every error offset lies in [start, start+len] on a character boundary, the token stream is finite up to its first error; 49 scaling families up to 4096 neither abort on an 8 MiB stack at realistic sizes nor grow faster than cubically in steps.',
            'release build with overflow-checks/debug-assertions; step counter H2; the polynomial claim is checked on the listed families only', '7/C03'),
    'C04': (True, 'exhaustive application of rule-violating edit operators at every site of every corpus sentence plus complete products of parameter lists, argument lists, indentation triples, number shapes and f-string bodies; CPython decides (by message class) that the case violates the rule',
            'For every case CPython rejects for the rule in question, the real parser must reject with an error kind that names that rule and an offset inside the edited construct; single-violation filters keep cases with two independent errors out.',
            'CPython 3.11 ast.parse/compile messages classify the violations; the kind table is at the granularity of the property\'s rule list', '7/C04'),
    'C05': (True, 'explicit-state search of the lexer line machine through hook H1 (state = bracket depth, begin-of-line flag, indentation stack; closed at depth 5) and bounded-exhaustive enumeration of character strings, lexeme and layout-lexeme sequences and corpus layouts through the real lexer in both configurations and three modes; reference-free tiling invariants plus agreement with CPython\'s C tokenizer',
            'Every text inside the bound is lexed by the default and full-lexer builds; ranges, gaps, spellings, number/string payloads, NEWLINE/INDENT/DEDENT discipline and Comment/NonLogicalNewline tokens are checked on every token, and NAME/NUMBER/STRING/operator tokens are compared with _tokenize.TokenizerIter.',
            'CPython 3.11 C tokenizer for significant tokens (layout tokens are not compared with it); invariants computed from (Tok, range) and the text', '7/C05'),
    'C06': (True, 'exhaustive enumeration of the escape space (all one-char escapes x prefixes x quotes, all \\x, all octal, all \\uXXXX, \\U boundaries, \\N names), prefixes, newline shapes, concatenations, all numeric strings <=5/6 over a 16-symbol alphabet, boundary integers and float midpoints, vs CPython values',
            'Every literal inside the stated products is parsed by the real parser in expression mode and its value compared with ast.parse; literals CPython rejects with a literal error must be rejected.',
            'CPython 3.11 literal evaluation; lone surrogates compared as U+FFFD', '7/C06'),
    'C07': (True, 'bounded-exhaustive enumeration of f-string bodies over a 28-lexeme alphabet (<=3/4) x 4 wrappers, a product of field shapes (expression x conversion x spec x = form x neighbours) and of literal concatenations, vs CPython 3.11\'s parts and field-expression positions',
            'Every f-string inside the bound that CPython accepts must give the same JoinedStr/FormattedValue/Constant sequence, conversion, nested spec and inner-expression ranges.',
            'CPython 3.11 (pre-PEP 701) f-string compiler; the u-kind marker of constants inside nested format specs is masked (CPython marks them inconsistently)', '7/C07'),
    'C08': (True, 'exhaustive application of every single layout rewrite at every site of every corpus sentence (and layout x site pairs on the smallest sentences): global layouts, inserted lines, line ends, bracket breaks, backslash joins, redundant parentheses; CPython validates that a rewrite is layout-only',
            'For every rewrite that CPython itself sees as layout-only (same position-free tree, or both rejected), the real parser must accept both or neither and build the same tree up to ranges.',
            'CPython 3.11 as the judge of layout-onlyness; the relation itself is between two runs of the real parser', '7/C08'),
    'C09': (True, 'exhaustive enumeration of G_ref sentences (valid and invalid) and of all short character strings, each through every entry point at 6 start offsets, against the offset-0 result shifted/projected in the harness',
            'For every text inside the bound, every entry point (parse*, lex*, Parse::* for Mod/Suite/Stmt/Expr/Identifier/Constant and all 55 generated node types, deprecated helpers) in three modes at offsets {0,1,7,400,2^31,2^32-2-len} must equal the shifted / projected offset-0 result.',
            'reference = parse(text, mode) at offset 0 (self-relation, no external oracle)', '7/C09'),
    'C10': (True, 'exhaustive enumeration of corpus sentences under comment/blank-line/CRLF layouts, all short character strings, lexeme and layout-lexeme sequences, f-string products and number shapes, each through the four feature builds; pairwise comparison with the default build',
            'Acceptance, tree, mandatory ranges, error kind and offset, and (for full-lexer) the filtered token stream are compared for every text inside the bound.',
            'self-relation between builds of the same source tree', '7/C10'),
    'C11': (True, 'deviation-bounded exhaustive enumeration of expression derivations (G_ref expression grammar d<=2/3, operator-and-parenthesis sub-grammar d<=3/4) plus a constant/f-string alphabet, each through parse -> unparse -> parse -> unparse',
            'Every expression tree the parser produces inside the bound is rendered, re-parsed, compared up to ranges/ctx and rendered again; the operator sub-grammar at one more deviation contains every (parent, child, side) triple of the precedence levels with and without parentheses.',
            'self-relation on the real parser and unparser', '7/C11'),
    'C12': (True, 'exhaustive enumeration of G_ref derivations (d<=2/3); every tree folded (identity, tagging) and visited (counting Visitor) with an independent node/range census taken from the Debug rendering; optimiser vs a reference transformation',
            'Every tree inside the bound, in the default and all-nodes-with-ranges builds: no child dropped/duplicated/moved by Fold, every statement/expression/pattern/handler visited exactly once, optimiser equal to the reference and idempotent.',
            'derive(Debug) as census; reference optimiser in the harness', '7/C12'),
    'C13': (True, 'explicit-state search of the LinearLocator cursor machine (states read through hook H4, BFS with de-duplication, histories replayed) for all texts <=6/8 over {a, é, LF, CR, BOM}; plus exhaustive enumeration of G_ref trees x 7 layouts x 2 builds through both locators against a reference counter',
            'All reachable cursor states x all locate/locate_only events are checked against a reference line/character counter, with the state-is-a-function-of-the-cursor abstraction asserted; every corpus tree is folded by both locators and compared with the reference rendering.',
            'reference counter in the harness; hook H4 (LinearLocator::verif_state)', '7/C13'),
    'C14': (True, 'bounded-exhaustive enumeration of the complete product of signature shapes (counts per parameter kind x default assignments x annotations x def/lambda) through the real parser and conversion functions against an in-harness reference',
            'Every signature shape up to the bound is parsed and converted both ways by the real code; the index arithmetic of the conversions depends only on the list lengths, all combinations of which are covered.',
            'reference = the generator\'s own description of each signature; default feature configuration', '7/C14'),
    'C15': (True, 'explicit exploration of every next()/next_back() interleaving of the newline iterator and bounded-exhaustive enumeration of texts x offsets x line numbers and of range pairs, against boring in-Rust reference models',
            'All texts over {a, é, LF, CR, 😀, BOM} up to the bound, all offsets, all line numbers, all iterator call sequences to exhaustion and all range pairs over a boundary endpoint set run through the real vendored code and are compared with reference models written in the harness.',
            'reference models in the harness (line splitter, deque of lines, u64 interval arithmetic); overflow checks on', '7/C15'),
    'C16': (True, 'bounded-exhaustive input enumeration (every Unicode scalar, all short strings over a class alphabet, all byte strings <=2) of the real escaping code against CPython repr/literal_eval and the real Constant::parse',
            'Every input inside the stated bound is executed on the real UnicodeEscape/AsciiEscape and compared with CPython; the bound contains every code point, so per-character escaping decisions are covered completely and interactions up to length 2-3.',
            'CPython 3.11 repr/ast.literal_eval; one frozen table of code points whose printable status differs between Unicode versions (vp/data/c16_delta.json); derive(Debug)', '7/C16'),
    'C17': (True, 'bounded-exhaustive enumeration: boundary-complete set of doubles x precision 0..20 x case x flag, and all strings <=6/7 over the float()/fromhex alphabets, real float.rs functions vs CPython',
            'All candidate numeric strings up to the bound and a value set holding both sides of every decision constant in float.rs and every binade are executed on the real code and compared with CPython.',
            'CPython 3.11 float/repr/float.hex/fromhex/%-formatting; to_string judged on round trip, shortest digit count and shape (ties may pick another last digit)', '7/C17'),
    'C18': (True, 'bounded-exhaustive enumeration: full cartesian product of format-spec field domains x value set, plus all strings <=3/4 over the mini-language alphabet, real FormatSpec vs CPython format()',
            'Every spec in the product and every short malformed spec is parsed and applied by the real code to every value of the set and compared with format(value, spec); residual disagreements are pinned by digest as known findings.',
            'CPython 3.11 format() under the C locale', '7/C18'),
    'C19': (True, 'bounded-exhaustive enumeration: all %-templates <=5/6 over the specifier alphabet (text and bytes) formatted end to end, plus the specifier product key x flags x width x precision x length x type x values, vs the % operator',
            'Every template and specifier inside the bound runs through the real CFormatString/CFormatBytes/CFormatSpec; the harness plays the interpreter (binds * and keys) and the result text / rejection / error index is compared with CPython.',
            'CPython 3.11 % operator; the harness-side binding of arguments mirrors what an interpreter does with the parsed parts', '7/C19'),
    'C20': (True, 'bounded-exhaustive enumeration: all strings <=6/7 over the template alphabet and over the field-name alphabet through the real FormatString / FieldName parsers vs _string.formatter_parser / formatter_field_name_split',
            'Complete coverage of every template and field name up to the bound (2.2 M quick / 22 M thorough inputs) against CPython\'s own template parser.',
            'CPython 3.11 _string module', '7/C20'),
}


def main():
    checks = []
    na = []
    for pid in sorted(P):
        built, tech, text, note, ref = P[pid]
        if not built:
            na.append({'property_id': pid, 'reason': 'check not built yet in this round (planned: DESIGN.md section %s); not claimed' % ref})
            continue
        checks.append({
            'property_id': pid,
            'quick_cmd': './check %s --tier quick' % pid,
            'thorough_cmd': './check %s --tier thorough' % pid,
            'evidence_file': 'evidence/%s.json' % pid,
            'replay_cmd_template': './check %s --replay {path}' % pid,
            'engine': 'vp+vworker',
            'level_claimed': {'category': 'model_checking', 'text': text, 'design_ref': 'DESIGN.md section ' + ref},
            'level_note': note,
            'technique': tech,
        })
    hooks_commits = []
    try:
        out = subprocess.run(['git', '-C', '/repo', 'log', '--format=%h %s'], capture_output=True, text=True).stdout
        hooks_commits = [l.split()[0] for l in out.splitlines() if ' verif-hook' in l or ' hook:' in l]
    except Exception:
        pass
    m = {
        'version': 1,
        'setup_cmd': './check --setup',
        'hooks': {
            'guard': 'rustpython_parser_verif',
            'enable': 'RUSTFLAGS=--cfg rustpython_parser_verif via harness/.cargo/config.toml ([build] rustflags); each check runs cargo build in /verif/harness, which path-depends on /repo crates',
            'baseline_off_cmd': 'cd /repo && cargo test --workspace --no-fail-fast --offline',
            'source_commits': hooks_commits,
            'add_only': True,
        },
        'engines': [
            {'name': 'vp+vworker', 'path': 'check, vp/, harness/vworker', 'serves_properties': [c['property_id'] for c in checks],
             'kind_free_text': 'Python 3.11 orchestrator (exhaustive enumerators, CPython reference oracle, findings/evidence) driving a Rust worker that runs the real crates built from /repo'},
        ],
        'checks': checks,
        'not_applicable': na,
        'notes': 'All verdicts are bounded-exhaustive (never sampled); see DESIGN.md. Known genuine defects that were not repaired are listed in known_findings.jsonl and reported as KNOWN-FINDING lines.',
    }
    with open(os.path.join(ROOT, 'MANIFEST.json'), 'w') as fh:
        json.dump(m, fh, indent=1)
        fh.write('\n')
    print('MANIFEST.json: %d checks, %d not claimed' % (len(checks), len(na)))


main()
