#!/bin/bash
# tools/confirm_seed.sh <worktree> <outdir> <crate> <crate dir> [features]  : independent confirmation of a seeded change in its scratch worktree:
#  (1) patch.diff applies to a clean checkout, (2) full existing suite passes with it, (3) demo fails with it, (4) demo passes without it.
set -u
wt=$1; out=$2; crate=${3:-rustpython-parser}; tdir=${4:-parser}; feat=${5:-}
fflag=""; [ -n "$feat" ] && fflag="--features $feat"
cd "$wt" || exit 2
git checkout -q -- . ; git clean -fdq -e target
git apply --check "$out/patch.diff" || { echo "CONFIRM: patch does not apply"; exit 1; }
git apply "$out/patch.diff"
suite=$(cargo test --workspace --offline 2>&1 | grep -E "^test result|FAILED|^error" | awk '/test result/{p+=$4; f+=$6} /FAILED|^error/{bad=1} END {print "passed=" p " failed=" f " bad=" bad+0}')
echo "CONFIRM suite-with-change: $suite"
mkdir -p $tdir/tests; cp "$out/demo.rs" $tdir/tests/seed_demo.rs
with=$(cargo test --offline -p $crate $fflag --test seed_demo 2>&1 | grep -E "^test result|^error" | head -2 | tr '\n' ' ')
echo "CONFIRM demo-with-change: $with"
git apply -R "$out/patch.diff"
without=$(cargo test --offline -p $crate $fflag --test seed_demo 2>&1 | grep -E "^test result|^error" | head -2 | tr '\n' ' ')
echo "CONFIRM demo-without-change: $without"
rm -f $tdir/tests/seed_demo.rs
git apply "$out/patch.diff"
