#!/usr/bin/env python3
"""tools/seed_meta.py : (re)write seeded/<id>/meta.json from the table below and the checks-<tier>.txt files written by tools/seed_matrix.sh."""
import json, os, re, glob
ROOT = os.path.join(os.path.dirname(os.path.abspath(__file__)), '..', 'seeded')
T = {
 'C01-a': ('C01', 'parser/src/soft_keywords.rs (match/case look-ahead: lambda flag set at any bracket depth)', 'a match/case header whose subject or pattern holds a lambda inside brackets, e.g. "match f(lambda: x):"'),
 'C02-a': ('C02', 'parser/src/string.rs parse_octet (digits consumed without advancing the location)', 'an f-string with an octal escape before a replacement field: later field expressions are placed too early'),
 'C03-a': ('C03', 'parser/src/string.rs parse_octet (u8 instead of u32)', "an octal escape above \\377 ('\\400'..'\\777'): panic"),
 'C04-a': ('C04', 'parser/src/function.rs parse_args (double_starred flag reset by a keyword argument)', 'a call with **kwargs, then a keyword argument, then *args: f(**a, k=1, *b) accepted'),
 'C05-a': ('C05', 'parser/src/lexer.rs eat_indentation (tab counter not reset after a blank line)', 'a blank line made of tabs before an indented line: wrong Indent/Dedent structure'),
 'C06-a': ('C06', 'parser/src/string.rs parse_octet (value-bounded loop takes a 4th digit)', "an octal escape with a leading zero followed by a digit ('\\0123')"),
 'C07-a': ('C07', 'parser/src/string.rs parse_octet (same as C02-a)', 'an octal escape before a replacement field'),
 'C08-a': ('C08', 'parser/src/lexer.rs consume_normal (line continuation only before LF / CRLF)', 'a backslash followed by a lone CR'),
 'C09-a': ('C09', 'parser/src/lexer.rs lex_starts_at (BOM sets instead of advances the location)', 'a text starting with a BOM lexed at a non-zero start offset'),
 'C10-a': ('C10', 'parser/src/soft_keywords.rs (Comment skipped inside the match arm)', 'full-lexer build, a comment on a line starting with match/case'),
 'C11-a': ('C11', 'ast/src/unparse.rs (Starred operand unparsed at TEST level)', 'a starred expression whose operand binds weaker than a bitwise-or, e.g. *(a if b else c) / *(a or b)'),
 'C12-a': ('C12', 'ast/src/optimizer.rs (!ctx.is_store() instead of ctx.is_load())', 'a constant tuple in Del context: del ()'),
 'C13-a': ('C13', 'ast/src/source_locator.rs fold_expr_call (keywords located before args)', 'a call whose keyword argument precedes a starred positional argument on an earlier line'),
 'C14-a': ('C14', 'ast/src/generic.rs into_python_arguments (swap-based partition of keyword-only parameters)', 'three or more keyword-only parameters with defaults interleaved so that the swap reorders them'),
 'C15-a': ('C15', 'core/src/source_code/line_index.rs (every U+FEFF dropped from the column count)', 'a U+FEFF that is not at offset 0 before the located offset on the same line'),
 'C16-a': ('C16', 'literal/src/escape.rs (\\u{:4x}: space padding)', 'a non-printable BMP character below U+1000'),
 'C17-a': ('C17', 'literal/src/float.rs to_hex (normal/subnormal decided from the shifted mantissa)', 'subnormal or specific normal doubles'),
 'C18-a': ('C18', 'format/src/format.rs (width computed without the alternate-form prefix)', 'an integer format with #, grouping/zero padding and a width'),
 'C19-a': ('C19', 'format/src/cformat.rs fill_string (bytes instead of characters)', 'a padded %s / %c of a non-ASCII value'),
 'C20-a': ('C20', 'format/src/format.rs parse_spec (conversion terminator offset by characters)', 'a replacement field with a non-ASCII conversion character or non-ASCII text before the conversion'),
 'C01-b': ('C01', 'parser/src/lexer.rs eat_indentation (end-of-input arm keeps the counted indentation)', 'a source without final newline whose last line is whitespace only, of a width that matches no open block'),
 'C02-b': ('C02', 'parser/src/lexer.rs lex_comment (location advanced per character)', 'a comment containing a multi-byte character, followed by more tokens'),
 'C03-b': ('C03', 'parser/src/string.rs parse_formatted_value (InvalidConversionFlag offset minus one byte)', "an f-string field whose '!' is followed by a non-ASCII character: error offset inside the character"),
 'C04-b': ('C04', 'parser/src/string.rs parse_escaped_char (non-ASCII check removed from the unknown-escape arm)', "a bytes literal with a backslash followed by a non-ASCII character: b'\\é' accepted"),
 'C05-b': ('C05', 'parser/src/lexer.rs lex_comment, default build only (characters instead of bytes)', 'default build, a comment with a multi-byte character, followed by tokens'),
 'C06-b': ('C06', 'parser/src/lexer.rs lex_normal_number (leading-zero check before the j suffix test)', 'an imaginary literal in integer form with a leading zero: 01j'),
 'C07-b': ('C07', 'parser/src/string.rs parse_formatted_value (quoted string copied without advancing the location)', 'a field expression containing a string literal, followed by another field or nested spec field'),
 'C08-b': ('C08', 'parser/src/lexer.rs eat_indentation (same spot as C01-b)', 'no final newline and a whitespace-only last line'),
 'C09-b': ('C09', 'parser/src/lexer.rs Lexer::new (at_begin_of_line false when the start offset is non-zero)', 'start offset > 0 and a text that starts with indentation, a blank line or a comment'),
 'C10-b': ('C10', 'parser/src/lexer.rs lex_comment, full-lexer build only (characters instead of bytes)', 'full-lexer build, a comment with a multi-byte character followed by code'),
 'C11-b': ('C11', 'literal/src/escape.rs UnicodeEscape::escaped_char_len (non-ASCII printable counted as 1)', 'a string constant whose extra UTF-8 bytes equal its extra escape bytes, e.g. "é\\n"'),
 'C12-b': ('C12', 'ast/src/gen/visitor.rs generic_visit_expr_dict (keys flattened and zipped with values)', 'a dict display with ** unpacking: the last values are never visited'),
 'C13-b': ('C13', 'core/src/source_code.rs LinearLocator::locate_inner (lines stepped over counted by LF only)', 'a lone-CR line break inside a region the linear scan steps over in one go'),
 'C14-b': ('C14', 'ast/src/generic.rs into_arguments (defaults split at posonly+args instead of args)', 'a positional-only parameter with a default'),
 'C15-b': ('C15', 'vendored/src/text_size/range.rs TextRange::checked_add (overflow check on the start only)', 'a non-empty range whose end + offset exceeds 2^32-1 while start + offset does not: panic instead of None'),
 'C16-b': ('C16', 'literal/src/char.rs is_printable (Latin-1 fast path includes U+00AD)', 'a string containing U+00AD SOFT HYPHEN'),
 'C17-b': ('C17', 'literal/src/float.rs format_general (exponent taken before rounding)', 'a value just below a power of ten that rounds up at the requested precision: 999.9 with %.3g'),
 'C18-b': ('C18', "format/src/format.rs FormatSpec::parse ('0' flag ignored when an alignment is given)", "explicit alignment without fill, '0' flag and a width: format(42, '<05')"),
 'C19-b': ('C19', 'format/src/cformat.rs format_float (sign from num < 0.0)', 'the value -0.0 through %e/%f/%g'),
 'C20-b': ('C20', 'format/src/format.rs FieldName::parse (byte offset used as a character count)', 'a field name with a multi-byte head followed by an accessor: {é.attr}'),
 'C01-c': ('C01', 'parser/src/lexer.rs lex_normal_number (leading-zero check right after the first digit run)', 'a float or imaginary literal whose integer part starts with 0 and has a non-zero digit: 01.5, 09e1, 07j'),
 'C02-c': ('C02', 'parser/src/function.rs parse_args (Keyword range ends at value.end())', 'a keyword argument whose value is redundantly parenthesised: f(a=(1)), f(**(d))'),
 'C03-c': ('C03', 'parser/src/lexer.rs eat_indentation (continuation keeps counting whitespace; Indent range underflows)', 'an indentation cut by backslash-newline and continued by more whitespace than the offset of the backslash: " \\<LF>  x": panic'),
 'C04-c': ('C04', 'parser/src/function.rs validate_pos_params (default-seen state lost across /)', 'a defaulted positional-only parameter followed by a non-default parameter after /: def f(a=1, /, b)'),
 'C05-c': ('C05', 'parser/src/lexer.rs handle_indentations (Indent range starts at the first skipped line)', 'an INDENT whose line follows a blank or comment-only line'),
 'C06-c': ('C06', 'parser/src/string.rs parse_strings (same-kind pieces joined before decoding)', 'implicit concatenation where a piece ends in a short octal escape and the next starts with an octal digit: "\\0" "1"'),
 'C07-c': ('C07', "parser/src/string.rs parse_fstring ('{{' unescaped inside format specs too)", 'a nested replacement field in a format spec whose expression starts with {: f"{3:{{1:2}[1]}}"'),
 'C08-c': ('C08', 'parser/src/lexer.rs lex_comment, default build (comment ends only at LF)', 'a comment on a line ending in CRLF or CR that is not the last line'),
 'C09-c': ('C09', 'parser/src/parser.rs error_not_before (only blank input relocated)', 'comment-only text, an entry point requiring an expression/statement, and a start offset > 0: Eof reported at 0'),
 'C10-c': ('C10', 'parser/src/string.rs parse_fstring_expr (lex_starts_at + parse_tokens skips the full-lexer token filter)', 'full-lexer build and an f-string field containing a line break or a comment'),
 'C11-c': ('C11', 'ast/src/unparse.rs unparse_formatted (leading-brace test by node kind)', 'an f-string field whose value starts with a brace display as its leftmost operand: f"{ {1: 2}[1] }"'),
 'C12-c': ('C12', 'ast/src/fold.rs + gen/fold.rs fold_stmt_try_star (orelse and finalbody swapped)', 'try/except* with else and/or finally, run through a Fold'),
 'C13-c': ('C13', 'ast/src/source_locator.rs linear_locate_expr_joined_str (literal range located after its field expression)', 'implicit concatenation containing an f-string whose first field ends on a later line than the literal opens'),
 'C14-c': ('C14', 'ast/src/generic.rs to_python_arguments (positional-only defaults not pushed)', 'to_python_arguments on a signature with a defaulted positional-only parameter'),
 'C15-c': ('C15', 'vendored/src/text_size/range.rs contains_range (contains + contains_inclusive)', 'an empty range located exactly at the end of the containing range'),
 'C16-c': ('C16', 'literal/src/escape.rs choose_quote (primary_count > secondary_count)', "a value with both quote kinds and strictly more ' than \""),
 'C17-c': ('C17', 'literal/src/float.rs from_hex (starts_with instead of contains for the 0x prefix)', 'a signed hexadecimal float with 0x prefix and no p exponent: -0x1'),
 'C18-c': ('C18', 'format/src/format.rs format_string (precision compared with the byte length)', 'a multi-byte text value, a precision between its character and byte counts, and a larger width'),
 'C19-c': ('C19', 'format/src/cformat.rs consume_length (any number of length modifiers)', 'a specifier with two or more length modifiers: %lld'),
 'C20-c': ('C20', 'format/src/format.rs parse_literal_single (unpaired brace at the very end accepted)', "a template whose last character is an unpaired '{' or '}'"),
}
for sid, (prop, where, needs) in T.items():
    d = os.path.join(ROOT, sid)
    if not os.path.isdir(d):
        continue
    det = {}
    for f in sorted(glob.glob(os.path.join(d, 'checks-*.txt'))):
        tier = re.search(r'checks-(\w+)\.txt', f).group(1)
        rows = [l.split() for l in open(f) if re.match(r'C\d\d rc=', l)]
        det[tier] = {'reporting_checks': [r[0] for r in rows if r[1] != 'rc=0'], 'silent_checks': [r[0] for r in rows if r[1] == 'rc=0'],
                     'own_property_check_reports': any(r[0] == prop and r[1] == 'rc=1' for r in rows)}
    meta = {'id': sid, 'property_broken': prop, 'change': where, 'needs_to_manifest': needs, 'origin': 'fresh sub-agent given only the property text and a scratch worktree (round %s)' % {'a': '1', 'b': '2', 'c': '3'}[sid[-1]],
            'confirmed_by': 'tools/confirm_seed.sh in the scratch worktree: patch applies to a clean checkout; cargo test --workspace --offline: 182 passed, 0 failed with the change; demo.rs fails with the change and passes without it',
            'how_run_against_checks': 'tools/try_seed.sh /verif/seeded/%s/patch.diff <tier> (git -C /repo apply; ./check Cxx --tier <tier> for all 20; git -C /repo checkout -- .)' % sid,
            'detection': det}
    json.dump(meta, open(os.path.join(d, 'meta.json'), 'w'), indent=1, ensure_ascii=False)
print('ok')
