#!/usr/bin/env python3
"""tools/seed_table.py : markdown table of the seeded changes and the checks that report them (from seeded/*/meta.json), for DESIGN.md R.7"""
import json, glob, os
ROOT = os.path.join(os.path.dirname(os.path.abspath(__file__)), '..', 'seeded')
rows = []
for f in sorted(glob.glob(os.path.join(ROOT, '*', 'meta.json'))):
    m = json.load(open(f))
    det = m.get('detection', {})
    def cell(t):
        d = det.get(t)
        if not d:
            return 'not run'
        rep = d['reporting_checks']
        own = m['property_broken'] in rep
        others = [x for x in rep if x != m['property_broken']]
        return ('**%s**' % m['property_broken'] if own else 'own check silent') + ((' + ' + ' '.join(others)) if others else '')
    rows.append('| %s | %s | %s | %s | %s |' % (m['id'], m['change'].split(' (')[0], m['needs_to_manifest'].replace('|', '\\|'), cell('quick'), cell('thorough')))
print('| seed | changed | needs | quick tier reports | thorough tier reports |')
print('|---|---|---|---|---|')
print('\n'.join(rows))
