#!/usr/bin/env python3
"""Maintenance: refresh the `// sha3:` line of parser/src/python.rs after a hand edit of python.lalrpop + the matching __actionN
(the same normalisation as parser/build.rs: every line terminated by a single \\n)."""
import hashlib, sys, re
root = sys.argv[1] if len(sys.argv) > 1 else '/repo'
h = hashlib.sha3_256()
for line in open(root + '/parser/src/python.lalrpop', newline=''):
    if line.endswith('\n'):
        line = line[:-1]
        if line.endswith('\r'):
            line = line[:-1]
    h.update(line.encode() + b'\n')
p = root + '/parser/src/python.rs'
s = open(p).read()
s2 = re.sub(r'^// sha3: [0-9a-f]{64}$', '// sha3: ' + h.hexdigest(), s, count=1, flags=re.M)
open(p, 'w').write(s2)
print('sha3', h.hexdigest(), 'changed' if s != s2 else 'unchanged')
