#!/usr/bin/env python3
"""Maintenance tool (run by hand, output reviewed and committed; never run by a check).
   tools/mkfinding.py <dump.jsonl> <finding-id> [...]
For each listed open finding of known_findings.jsonl, (re)writes findings/<id>.digests with the digests of all dumped failures
(VERIF_DUMP=<file> ./check Cxx --tier thorough) that match the finding's signature and input pattern, and prints what was left unmatched."""
import sys, json, re, os
root = os.path.dirname(os.path.dirname(os.path.abspath(__file__)))
dump, ids = sys.argv[1], sys.argv[2:]
recs = {}
for line in open(os.path.join(root, 'known_findings.jsonl')):
    line = line.strip()
    if line.startswith('{'):
        r = json.loads(line)
        recs[r['id']] = r
rows = [json.loads(l) for l in open(dump)]
matched = set()
for fid in ids:
    r = recs[fid]
    sig = re.compile(r['signature']) if r.get('signature_is_regex') else None
    pat = re.compile(r['input_pattern'], re.S) if r.get('input_pattern') else None
    ds = set()
    n = 0
    for i, row in enumerate(rows):
        if row['property'] != r['property']:
            continue
        if sig is not None:
            if not sig.fullmatch(row['signature']):
                continue
        elif r['signature'] != row['signature']:
            continue
        s = row['input'] if isinstance(row['input'], str) else json.dumps(row['input'], ensure_ascii=False, sort_keys=True)
        if pat is not None and not pat.search(s):
            continue
        ds.add(row['digest'])
        matched.add(i)
        n += 1
    with open(os.path.join(root, 'findings', fid + '.digests'), 'w') as fh:
        fh.write('\n'.join(sorted(ds)) + '\n')
    print('%s: %d cases, %d digests' % (fid, n, len(ds)))
left = [rows[i] for i in range(len(rows)) if i not in matched]
print('%d dumped failures matched no listed finding' % len(left))
for row in left[:10]:
    print('   ', row['signature'], '|', json.dumps(row['input'], ensure_ascii=False)[:120])
