#!/usr/bin/env python3
"""Maintenance tool (run by hand, output reviewed and committed; never run by a check):
   tools/mkfinding.py <dump.jsonl> <finding-id> <signature-regex> <input-regex>
writes findings/<finding-id>.digests with the digests of all dumped failures matching both regexes and prints a summary."""
import sys, json, re, os
dump, fid, sigre, inre = sys.argv[1:5]
sigre, inre = re.compile(sigre), re.compile(inre, re.S)
ds = set(); sigs = {}
rest = 0
for line in open(dump):
    r = json.loads(line)
    s = r['input'] if isinstance(r['input'], str) else json.dumps(r['input'], ensure_ascii=False, sort_keys=True)
    if sigre.fullmatch(r['signature']) and inre.search(s):
        ds.add(r['digest']); sigs[r['signature']] = sigs.get(r['signature'], 0) + 1
    else:
        rest += 1
root = os.path.dirname(os.path.dirname(os.path.abspath(__file__)))
path = os.path.join(root, 'findings', fid + '.digests')
old = set(open(path).read().split()) if os.path.exists(path) else set()
with open(path, 'w') as fh:
    fh.write('\n'.join(sorted(ds | old)) + '\n')
print('%s: %d digests (+%d kept from before), signatures: %s; %d dumped failures not matched' % (fid, len(ds), len(old - ds), sigs, rest))
