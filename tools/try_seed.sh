#!/bin/bash
# tools/try_seed.sh <patch.diff> [tier] [props...]  : apply a seeded change to /repo, run the listed checks (default: all 20, quick),
# print one line per check (exit status, violations, first signature), and undo the change. /repo must be clean.
set -u
patch=$1; tier=${2:-quick}; shift; shift || true
props=${*:-C01 C02 C03 C04 C05 C06 C07 C08 C09 C10 C11 C12 C13 C14 C15 C16 C17 C18 C19 C20}
cd /verif
if [ -n "$(git -C /repo status --porcelain --untracked-files=no)" ]; then echo "/repo is not clean"; exit 2; fi
git -C /repo apply "$patch" || { echo "patch does not apply"; exit 2; }
trap 'git -C /repo checkout -- . ; git -C /repo clean -fdq parser/src/snapshots 2>/dev/null' EXIT
./check --setup >/dev/null 2>&1   # all four worker builds at once, in parallel
for p in $props; do
  out=$(./check $p --tier $tier 2>&1); rc=$?
  nv=$(echo "$out" | grep -c '^VIOLATION')
  sig=$(echo "$out" | grep -m1 'signature:' | sed 's/.*signature: //' | cut -c1-110)
  echo "$p rc=$rc violations=$nv $sig"
done
