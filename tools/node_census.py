#!/usr/bin/env python3.11
"""tools/node_census.py [d] : which generated AST node structs occur in the trees of the corpus (G_ref d<=D + G_impl sentences)?
Lists the node types of ast/src/gen/generic.rs that no corpus tree contains (mutations of their Fold/Visitor/locator code would be invisible)."""
import sys, re, os
sys.path.insert(0, os.path.join(os.path.dirname(os.path.abspath(__file__)), '..'))
from vp import common as C, corpus as K, relcheck as R

d = int(sys.argv[1]) if len(sys.argv) > 1 else 2
C.build(('default',))
src = open('/repo/ast/src/gen/generic.rs').read()
structs = set(re.findall(r'pub struct (\w+)<R', src))
seen = set()


def walk(n):
    if isinstance(n, list):
        for x in n:
            walk(x)
    elif isinstance(n, dict):
        if 'f' in n:
            seen.add(n['t'])
            for v in n['f'].values():
                walk(v)
        for k in ('a', 'u'):
            if k in n:
                walk(n[k])
        if 'ok' in n:
            walk(n['ok'])


def shard(paths):
    texts = [t for t, c, _ in R.corpus_texts(paths, d, 'file')]
    out = set()
    global seen
    seen = set()
    for i in range(0, len(texts), 3000):
        for o in C.run_worker(['parse\texec\t' + C.hx(t) for t in texts[i:i + 3000]]):
            walk(o)
    return seen


allseen = set()
for s in C.pmap(shard, K.group_shards(K.shards_for(d, 'file'), 64)):
    allseen |= s
print('node structs in generic.rs: %d; seen in corpus trees (d<=%d + G_impl): %d' % (len(structs), d, len(structs & allseen)))
print('never seen:', sorted(structs - allseen))
