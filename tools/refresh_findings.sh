#!/bin/bash
# Maintenance (by hand, after a change to the corpus grammar or to a canonicaliser): re-enumerate the thorough space of the properties whose
# known findings are digest-pinned, and rewrite the digest files from the dumps. Review `git diff --stat findings/` before committing.
set -e
cd "$(dirname "$0")/.."
for spec in "C01 KF-C01-001 KF-C01-002 KF-C01-003 KF-C01-004 KF-C01-005" "C02 KF-C02-001 KF-C02-002 KF-C02-003 KF-C02-004 KF-C02-005" "C04 KF-C04-001 KF-C04-002" "C06 KF-C06-001 KF-C06-002" "C07 KF-C07-001" "C08 KF-C08-001" "C11 KF-C11-001" "C18 KF-C18-001 KF-C18-002" "C20 KF-C20-001"; do
  set -- $spec
  p=$1; shift
  if [ -n "$ONLY" ] && [[ " $ONLY " != *" $p "* ]]; then continue; fi
  echo "== $p"
  VERIF_DUMP=/tmp/refresh-$p.dump ./check $p --tier thorough > /tmp/refresh-$p.out 2>&1 || true
  tail -1 /tmp/refresh-$p.out | cut -c1-200
  tools/mkfinding.py /tmp/refresh-$p.dump "$@"
  rm -f /tmp/refresh-$p.dump
done
