#!/bin/bash
# tools/seed_matrix.sh [tier] [seed dirs...] : run every check against every seeded change (one at a time, /repo restored after each) and store
# the per-check outcome in seeded/<id>/checks-<tier>.txt. Not part of any registered check; /repo must be clean.
tier=${1:-quick}; shift || true
cd /verif
seeds=${*:-$(ls -d seeded/C*/ | tr -d '\n' | sed 's#/seeded# seeded#g')}
for d in $seeds; do
  d=${d%/}
  echo "== $d"
  tools/try_seed.sh /verif/$d/patch.diff $tier | tee $d/checks-$tier.txt
done
# leave the harness builds matching the unchanged tree
./check --setup >/dev/null 2>&1
