#!/bin/bash
# tools/seed_matrix.sh [tier] [seed dirs...] : run every check against every seeded change (one at a time, /repo restored after each) and store
# the per-check outcome in seeded/<id>/checks-<tier>.txt. Not part of any registered check; /repo must be clean.
tier=${1:-quick}; shift || true
cd /verif
seeds=${*:-$(ls -d seeded/C*/ | tr -d '\n' | sed 's#/seeded# seeded#g')}
# SKIP_DONE=1: keep the result of a seed that already has a checks-<tier>.txt
for d in $seeds; do
  d=${d%/}
  if [ -n "${SKIP_DONE:-}" ] && [ -s $d/checks-$tier.txt ]; then continue; fi
  echo "== $d"
  tools/try_seed.sh /verif/$d/patch.diff $tier | tee $d/checks-$tier.txt
done
# leave the harness builds matching the unchanged tree
./check --setup >/dev/null 2>&1
