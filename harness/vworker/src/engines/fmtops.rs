//! Ops over rustpython-format / rustpython-literal (default configuration only).
use crate::dbg::{json_str, to_json_or_err};
use crate::ops::res_json;
use crate::util::*;
use malachite_bigint::BigInt;
use rustpython_format::cformat::{CConversionFlags, CFormatBytes, CFormatPart, CFormatPrecision, CFormatQuantity, CFormatSpec, CFormatString, CFormatType};
use rustpython_format::{CharLen, FieldName, FormatSpec, FormatString, FromTemplate};
use rustpython_literal::escape::{AsciiEscape, Escape, UnicodeEscape};
use rustpython_literal::float;
use rustpython_literal::format::Case;

pub struct W(pub String);
impl CharLen for W {
    fn char_len(&self) -> usize {
        self.0.chars().count()
    }
}
impl std::ops::Deref for W {
    type Target = str;
    fn deref(&self) -> &str {
        &self.0
    }
}

fn f64_of(bits_hex: &str) -> f64 {
    f64::from_bits(u64::from_str_radix(bits_hex, 16).expect("bits"))
}
fn opt_bits(x: Option<f64>) -> String {
    match x {
        Some(v) => format!("{{\"bits\":\"{:016x}\"}}", v.to_bits()),
        None => "null".to_string(),
    }
}
fn case_of(s: &str) -> Case {
    if s == "U" { Case::Upper } else { Case::Lower }
}
fn strres<E: std::fmt::Debug>(r: Result<String, E>) -> String {
    match r {
        Ok(s) => format!("{{\"ok\":{}}}", json_str(&s)),
        Err(e) => format!("{{\"err\":{}}}", json_str(&format!("{:?}", e))),
    }
}

fn bind_stars(sp: &mut CFormatSpec, v: usize) -> usize {
    let mut n = 0;
    if matches!(sp.min_field_width, Some(CFormatQuantity::FromValuesTuple)) {
        sp.min_field_width = Some(CFormatQuantity::Amount(v));
        n += 1;
    }
    if matches!(sp.precision, Some(CFormatPrecision::Quantity(CFormatQuantity::FromValuesTuple))) {
        sp.precision = Some(CFormatPrecision::Quantity(CFormatQuantity::Amount(v)));
        n += 1;
    }
    n
}

fn apply_spec(sp: &CFormatSpec, v: i64) -> String {
    match &sp.format_type {
        CFormatType::Number(_) => sp.format_number(&BigInt::from(v)),
        CFormatType::Float(_) => sp.format_float(v as f64),
        CFormatType::Character => sp.format_char(char::from_u32(v as u32).expect("char")),
        CFormatType::String(_) => sp.format_string(v.to_string()),
    }
}

pub fn dispatch(op: &str, a: &[&str]) -> Option<String> {
    Some(match op {
        // ---- C18 ----
        "fspec" => {
            // fspec <kind i|f|s|b> <hexspec> <value: dec int | f64 bits | hex str | 0/1>
            let spec = unhex(a[1]);
            let r = FormatSpec::parse(&spec);
            match r {
                Err(e) => format!("{{\"err\":{},\"stage\":\"parse\"}}", json_str(&format!("{:?}", e))),
                Ok(s) => strres(match a[0] {
                    "i" => s.format_int(&a[2].parse::<BigInt>().expect("int")),
                    "f" => s.format_float(f64_of(a[2])),
                    "s" => s.format_string(&W(unhex(a[2]))),
                    "b" => s.format_bool(a[2] == "1"),
                    _ => panic!("kind"),
                }),
            }
        }
        "fspec_parse" => res_json(&FormatSpec::parse(&unhex(a[0]))),
        // ---- C20 ----
        "fmtstr" => res_json(&FormatString::from_str(&unhex(a[0]))),
        "fieldname" => res_json(&FieldName::parse(&unhex(a[0]))),
        // ---- C19 ----
        "cfmt_str" => res_json(&unhex(a[0]).parse::<CFormatString>()),
        "cfmt_bytes" => res_json(&CFormatBytes::parse_from_bytes(&unhex_bytes(a[0]))),
        "cfmt_spec" => {
            // cfmt_spec <hexspec "%…"> <kind i|f|s|c|y> <value>
            let spec = unhex(a[0]);
            match spec.parse::<CFormatSpec>() {
                Err(e) => format!("{{\"err\":{}}}", to_json_or_err(&format!("{:?}", e))),
                Ok(mut s) => {
                    // optional '*' bindings: a[3] = width, a[4] = precision (decimal, may be negative for width)
                    if let Some(w) = a.get(3).filter(|x| !x.is_empty()) {
                        let w: i64 = w.parse().unwrap();
                        if matches!(s.min_field_width, Some(CFormatQuantity::FromValuesTuple)) {
                            // a negative '*' width means left adjustment, exactly as the interpreter binds it
                            if w < 0 { s.flags |= CConversionFlags::LEFT_ADJUST; }
                            s.min_field_width = Some(CFormatQuantity::Amount(w.unsigned_abs() as usize));
                        }
                    }
                    if let Some(p) = a.get(4).filter(|x| !x.is_empty()) {
                        let p: i64 = p.parse().unwrap();
                        if matches!(s.precision, Some(CFormatPrecision::Quantity(CFormatQuantity::FromValuesTuple))) {
                            s.precision = Some(CFormatPrecision::Quantity(CFormatQuantity::Amount(p.max(0) as usize)));
                        }
                    }
                    let ty = match &s.format_type {
                        CFormatType::Number(_) => "i",
                        CFormatType::Float(_) => "f",
                        CFormatType::Character => "c",
                        CFormatType::String(_) => "s",
                    };
                    let specj = to_json_or_err(&format!("{:?}", s));
                    let out = match (a[1], ty) {
                        ("i", "i") => Some(json_str(&s.format_number(&a[2].parse::<BigInt>().expect("int")))),
                        ("f", "f") => Some(json_str(&s.format_float(f64_of(a[2])))),
                        ("s", "s") => Some(json_str(&s.format_string(unhex(a[2])))),
                        ("c", "c") => Some(json_str(&s.format_char(unhex(a[2]).chars().next().expect("char")))),
                        ("y", "s") | ("y", "c") => Some(format!("{{\"hex\":\"{}\"}}", hex(&s.format_bytes(&unhex_bytes(a[2]))))),
                        _ => None,
                    };
                    match out {
                        Some(o) => format!("{{\"ok\":{},\"ty\":\"{}\",\"spec\":{}}}", o, ty, specj),
                        None => format!("{{\"skip\":\"type mismatch\",\"ty\":\"{}\",\"spec\":{}}}", ty, specj),
                    }
                }
            }
        }
        "cfmt_apply" => {
            // cfmt_apply <s|y> <hextemplate> <int v>: parse the template and format every specifier with the value v
            // (the harness plays the interpreter: it binds '*' quantities to v and picks format_* by the specifier's type)
            let v: i64 = a[2].parse().unwrap();
            if a[0] == "s" {
                match unhex(a[1]).parse::<CFormatString>() {
                    Err(e) => format!("{{\"err\":{},\"index\":{}}}", to_json_or_err(&format!("{:?}", e.typ)), e.index),
                    Ok(mut t) => {
                        let chk = t.check_specifiers();
                        let mut out = String::new();
                        let mut nspec = 0usize;
                        let mut nstar = 0usize;
                        let mut keyed = 0usize;
                        for (_, part) in t.iter_mut() {
                            match part {
                                CFormatPart::Literal(l) => out.push_str(l),
                                CFormatPart::Spec(sp) => {
                                    nspec += 1;
                                    if sp.mapping_key.is_some() { keyed += 1; }
                                    nstar += bind_stars(sp, v as usize);
                                    out.push_str(&apply_spec(sp, v));
                                }
                            }
                        }
                        format!("{{\"ok\":{},\"nspec\":{},\"nstar\":{},\"keyed\":{},\"check\":{}}}", json_str(&out), nspec, nstar, keyed,
                            match chk { Some((c, m)) => format!("[{},{}]", c, m), None => "null".into() })
                    }
                }
            } else {
                match CFormatBytes::parse_from_bytes(&unhex_bytes(a[1])) {
                    Err(e) => format!("{{\"err\":{},\"index\":{}}}", to_json_or_err(&format!("{:?}", e.typ)), e.index),
                    Ok(mut t) => {
                        let chk = t.check_specifiers();
                        let mut out: Vec<u8> = Vec::new();
                        let mut nspec = 0usize;
                        let mut nstar = 0usize;
                        let mut keyed = 0usize;
                        for (_, part) in t.iter_mut() {
                            match part {
                                CFormatPart::Literal(l) => out.extend_from_slice(l),
                                CFormatPart::Spec(sp) => {
                                    nspec += 1;
                                    if sp.mapping_key.is_some() { keyed += 1; }
                                    nstar += bind_stars(sp, v as usize);
                                    match &sp.format_type {
                                        CFormatType::String(_) => out.extend_from_slice(&sp.format_bytes(v.to_string().as_bytes())),
                                        CFormatType::Character => out.extend_from_slice(&sp.format_bytes(&[v as u8])),
                                        _ => out.extend_from_slice(apply_spec(sp, v).as_bytes()),
                                    }
                                }
                            }
                        }
                        format!("{{\"okhex\":\"{}\",\"nspec\":{},\"nstar\":{},\"keyed\":{},\"check\":{}}}", hex(&out), nspec, nstar, keyed,
                            match chk { Some((c, m)) => format!("[{},{}]", c, m), None => "null".into() })
                    }
                }
            }
        }
        // ---- C17 ----
        "frepr" => json_str(&float::to_string(f64_of(a[0]))),
        "fparse" => opt_bits(float::parse_str(&unhex(a[0]))),
        "fparseb" => opt_bits(float::parse_bytes(&unhex_bytes(a[0]))),
        "fhex" => json_str(&float::to_hex(f64_of(a[0]))),
        "ffromhex" => opt_bits(float::from_hex(&unhex(a[0]))),
        "ffmt" => {
            // ffmt <f|e|g> <prec> <bits> <L|U> <alt 0|1>   (magnitude is passed as given)
            let p: usize = a[1].parse().unwrap();
            let x = f64_of(a[2]);
            let c = case_of(a[3]);
            let alt = a[4] == "1";
            json_str(&match a[0] {
                "f" => float::format_fixed(p, x, c, alt),
                "e" => float::format_exponent(p, x, c, alt),
                "g" => float::format_general(p, x, c, alt, false),
                "G" => float::format_general(p, x, c, alt, true),
                _ => panic!("ffmt kind"),
            })
        }
        "fisint" => format!("{}", float::is_integer(f64_of(a[0]))),
        // ---- C16 ----
        "srepr" => {
            let s = unhex(a[0]);
            let e = UnicodeEscape::new_repr(&s);
            let r = e.str_repr().to_string();
            let disp = format!("{}", e.str_repr());
            format!(
                "{{\"repr\":{},\"to_string\":{},\"len\":{},\"changed\":{}}}",
                json_str(&disp),
                match &r { Some(x) => json_str(x), None => "null".into() },
                match e.layout().len { Some(n) => n.to_string(), None => "null".into() },
                e.changed()
            )
        }
        "brepr" => {
            let b = unhex_bytes(a[0]);
            let e = AsciiEscape::new_repr(&b);
            let r = e.bytes_repr().to_string();
            let mut disp = String::new();
            e.bytes_repr().write(&mut disp).unwrap();
            format!(
                "{{\"repr\":{},\"to_string\":{},\"len\":{},\"changed\":{}}}",
                json_str(&disp),
                match &r { Some(x) => json_str(x), None => "null".into() },
                match e.layout().len { Some(n) => n.to_string(), None => "null".into() },
                e.changed()
            )
        }
        _ => return None,
    })
}
