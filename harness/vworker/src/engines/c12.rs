//! C12 — Fold and Visitor traverse the whole tree faithfully; constant optimiser. One module text in (relcheck protocol).
//! The reference for node/range counts is the compiler-derived Debug rendering of the tree.
use super::scrub_debug;
use crate::dbg::{json_str, to_json_or_err};
use rustpython_ast::fold::Fold;
use rustpython_ast::Visitor;
use rustpython_ast::{self as ast, ConstantOptimizer};
use rustpython_parser::text_size::TextRange;
use rustpython_parser::{parse, Mode};
use std::collections::BTreeMap;
use std::fmt::Write;

struct Identity;
impl Fold<TextRange> for Identity {
    type TargetU = TextRange;
    type Error = std::convert::Infallible;
    type UserContext = ();
    fn will_map_user(&mut self, _user: &TextRange) {}
    fn map_user(&mut self, user: TextRange, _c: ()) -> Result<TextRange, Self::Error> {
        Ok(user)
    }
}

#[derive(Clone, Copy, PartialEq)]
struct Tag(u32);
impl std::fmt::Debug for Tag {
    fn fmt(&self, f: &mut std::fmt::Formatter<'_>) -> std::fmt::Result {
        write!(f, "#{}", self.0)
    }
}
struct Tagger {
    will: u32,
    mapped: u32,
    order_ok: bool,
}
impl Fold<TextRange> for Tagger {
    type TargetU = Tag;
    type Error = std::convert::Infallible;
    type UserContext = u32;
    fn will_map_user(&mut self, _user: &TextRange) -> u32 {
        self.will += 1;
        self.will
    }
    fn map_user(&mut self, _user: TextRange, c: u32) -> Result<Tag, Self::Error> {
        self.mapped += 1;
        if c == 0 || c > self.will {
            self.order_ok = false;
        }
        Ok(Tag(c))
    }
}

/// bounded writer: keeps the first `cap` bytes of a Debug rendering
struct Head {
    buf: String,
    cap: usize,
}
impl Write for Head {
    fn write_str(&mut self, s: &str) -> std::fmt::Result {
        if self.buf.len() >= self.cap {
            return Err(std::fmt::Error);
        }
        self.buf.push_str(s);
        Ok(())
    }
}
fn head_of<T: std::fmt::Debug>(x: &T) -> String {
    let mut h = Head { buf: String::new(), cap: 120 };
    let _ = write!(h, "{:?}", x);
    // "Assign(StmtAssign { range: 0..5, …"  ->  "StmtAssign { range: 0..5"
    let s = h.buf;
    let st = s.find('(').map(|i| i + 1).unwrap_or(0);
    let rest = &s[st..];
    match rest.find(", ").or_else(|| rest.find(" }")) {
        Some(e) => rest[..e].to_string(),
        None => rest.to_string(),
    }
}

#[derive(Default)]
struct Counter {
    seen: BTreeMap<String, u32>,
}
impl Counter {
    fn add(&mut self, k: String) {
        *self.seen.entry(k).or_insert(0) += 1;
    }
}
impl Visitor for Counter {
    fn visit_stmt(&mut self, node: ast::Stmt) {
        self.add(head_of(&node));
        self.generic_visit_stmt(node)
    }
    fn visit_expr(&mut self, node: ast::Expr) {
        self.add(head_of(&node));
        self.generic_visit_expr(node)
    }
    fn visit_pattern(&mut self, node: ast::Pattern) {
        self.add(head_of(&node));
        self.generic_visit_pattern(node)
    }
    fn visit_excepthandler(&mut self, node: ast::ExceptHandler) {
        self.add(head_of(&node));
        self.generic_visit_excepthandler(node)
    }
}

/// all "Name { range: a..b" heads of statement / expression / pattern / handler structs in a Debug rendering (string literals skipped)
fn reference_heads(s: &str) -> BTreeMap<String, u32> {
    let b = s.as_bytes();
    let mut out: BTreeMap<String, u32> = BTreeMap::new();
    let mut i = 0;
    while i < b.len() {
        let c = b[i];
        if c == b'"' {
            i += 1;
            while i < b.len() && b[i] != b'"' {
                if b[i] == b'\\' { i += 1; }
                i += 1;
            }
            i += 1;
            continue;
        }
        if c == b'\'' {
            i += 1;
            if i < b.len() && b[i] == b'\\' {
                i += 2;
                if b[i - 1] == b'u' {
                    while i < b.len() && b[i] != b'}' { i += 1; }
                    i += 1;
                }
            } else {
                let ch = s[i..].chars().next().unwrap();
                i += ch.len_utf8();
            }
            i += 1;
            continue;
        }
        if c.is_ascii_uppercase() && (i == 0 || !(b[i - 1].is_ascii_alphanumeric() || b[i - 1] == b'_')) {
            let st = i;
            while i < b.len() && (b[i].is_ascii_alphanumeric() || b[i] == b'_') { i += 1; }
            let name = &s[st..i];
            let is_node = (name.starts_with("Stmt") && name.len() > 4)
                || (name.starts_with("Expr") && name.len() > 4 && name != "ExprContext")
                || (name.starts_with("Pattern") && name.len() > 7)
                || name == "ExceptHandlerExceptHandler";
            if is_node && s[i..].starts_with(" { range: ") {
                let mut e = i + 10;
                while e < b.len() && (b[e].is_ascii_digit() || b[e] == b'.') { e += 1; }
                *out.entry(s[st..e].to_string()).or_insert(0) += 1;
            }
            continue;
        }
        i += 1;
    }
    out
}

fn count_ranges(s: &str, tagged: bool) -> (u32, Vec<u32>) {
    // number of `range: a..b` (or `range: #n`) fields outside string literals, and the tags
    let b = s.as_bytes();
    let mut n = 0;
    let mut tags = Vec::new();
    let mut i = 0;
    while i < b.len() {
        let c = b[i];
        if c == b'"' {
            i += 1;
            while i < b.len() && b[i] != b'"' {
                if b[i] == b'\\' { i += 1; }
                i += 1;
            }
            i += 1;
            continue;
        }
        if c == b'\'' {
            i += 1;
            if i < b.len() && b[i] == b'\\' {
                i += 2;
                if b[i - 1] == b'u' {
                    while i < b.len() && b[i] != b'}' { i += 1; }
                    i += 1;
                }
            } else {
                let ch = s[i..].chars().next().unwrap();
                i += ch.len_utf8();
            }
            i += 1;
            continue;
        }
        if s[i..].starts_with("range: ") {
            let j = i + 7;
            if tagged && j < b.len() && b[j] == b'#' {
                let mut e = j + 1;
                while e < b.len() && b[e].is_ascii_digit() { e += 1; }
                tags.push(s[j + 1..e].parse().unwrap());
                n += 1;
            } else if !tagged && j < b.len() && b[j].is_ascii_digit() {
                n += 1;
            }
            i = j;
            continue;
        }
        i += 1;
    }
    (n, tags)
}

fn erase_tags(s: &str) -> String {
    // "range: #12" -> "range: _"
    let mut out = String::with_capacity(s.len());
    let b = s.as_bytes();
    let mut i = 0;
    while i < b.len() {
        if s[i..].starts_with("range: #") {
            let mut e = i + 8;
            while e < b.len() && b[e].is_ascii_digit() { e += 1; }
            out.push_str("range: _");
            i = e;
            continue;
        }
        let ch = s[i..].chars().next().unwrap();
        out.push(ch);
        i += ch.len_utf8();
    }
    out
}

pub fn op(src: &str, want_trees: bool, mode: Mode) -> String {
    let tree = match parse(src, mode, "<v>") {
        Ok(t) => t,
        Err(e) => return format!("{{\"skip\":{}}}", json_str(&format!("{:?}", e.error))),
    };
    let mut errs: Vec<(String, String, String)> = Vec::new();
    let mut n = 0u64;
    let d0 = format!("{:?}", tree);
    // (a) identity fold
    let id = Identity.fold(tree.clone()).unwrap();
    n += 1;
    let d1 = format!("{:?}", id);
    if d1 != d0 {
        errs.push(("identity fold changes the tree".into(), trunc(&d1), trunc(&d0)));
    }
    // (b) tagging fold
    let mut tg = Tagger { will: 0, mapped: 0, order_ok: true };
    let tagged = tg.fold(tree.clone()).unwrap();
    let dt = format!("{:?}", tagged);
    let (nranges, _) = count_ranges(&d0, false);
    let (ntags, mut tags) = count_ranges(&dt, true);
    n += 3;
    if tg.mapped != nranges || tg.will != nranges {
        errs.push(("range callback is not invoked exactly once per range-carrying node".into(), format!("will_map_user {} map_user {}", tg.will, tg.mapped), format!("{} ranges in the tree", nranges)));
    }
    tags.sort();
    let dup = tags.windows(2).any(|w| w[0] == w[1]);
    if ntags != nranges || dup || !tg.order_ok {
        errs.push(("mapped ranges are dropped or duplicated in the folded tree".into(), format!("{} tags, duplicate={}", ntags, dup), format!("{} ranges", nranges)));
    }
    if erase_tags(&dt).replace("range: ()", "range: _") != scrub_debug(&d0, false) {
        errs.push(("folded tree has another shape than the input".into(), trunc(&erase_tags(&dt)), trunc(&scrub_debug(&d0, false))));
    }
    // (c) counting visitor
    // the Visitor trait has no visit_mod: the root's children are handed over one by one
    let mut cv = Counter::default();
    match tree.clone() {
        ast::Mod::Module(m) => {
            for s in m.body {
                cv.visit_stmt(s);
            }
        }
        ast::Mod::Interactive(m) => {
            for s in m.body {
                cv.visit_stmt(s);
            }
        }
        ast::Mod::Expression(m) => cv.visit_expr(*m.body),
        ast::Mod::FunctionType(_) => return "{\"skip\":\"function type root\"}".to_string(),
    }
    let want = reference_heads(&d0);
    n += 1;
    if cv.seen != want {
        let mut missing = Vec::new();
        let mut extra = Vec::new();
        for (k, v) in &want {
            let g = cv.seen.get(k).copied().unwrap_or(0);
            if g < *v { missing.push(format!("{} x{}", k, v - g)); }
        }
        for (k, v) in &cv.seen {
            let g = want.get(k).copied().unwrap_or(0);
            if *v > g { extra.push(format!("{} x{}", k, v - g)); }
        }
        let kinds: std::collections::BTreeSet<String> = missing.iter().chain(extra.iter()).map(|s| s.split(' ').next().unwrap_or("").to_string()).collect();
        errs.push((
            format!("default Visitor does not reach every node exactly once ({}{})", if !missing.is_empty() { "missed " } else { "" }, if !extra.is_empty() { "revisited" } else { "" }).replace(" )", ")"),
            format!("missed [{}] revisited [{}]", missing.join("; "), extra.join("; ")),
            format!("kinds: {}", kinds.into_iter().collect::<Vec<_>>().join(",")),
        ));
    }
    // (d) constant optimiser: idempotent here; the transformation itself is compared with the reference by the orchestrator
    let opt = ConstantOptimizer::new().fold(tree.clone()).unwrap();
    let opt2 = ConstantOptimizer::new().fold(opt.clone()).unwrap();
    n += 1;
    let dopt = format!("{:?}", opt);
    if format!("{:?}", opt2) != dopt {
        errs.push(("constant optimiser is not idempotent".into(), trunc(&format!("{:?}", opt2)), trunc(&dopt)));
    }
    let trees = if want_trees { format!(",\"orig\":{},\"opt\":{}", to_json_or_err(&d0), to_json_or_err(&dopt)) } else { String::new() };
    if errs.is_empty() {
        return format!("{{\"ok\":{},\"cls\":\"ranges={}\"{}}}", n, nranges.min(40), trees);
    }
    let v: Vec<String> = errs.iter().map(|(a, b, c)| format!("[{},{},{}]", json_str(a), json_str(b), json_str(c))).collect();
    format!("{{\"n\":{},\"fail\":[{}]{}}}", n, v.join(","), trees)
}

fn trunc(s: &str) -> String {
    if s.len() <= 300 { return s.to_string(); }
    let mut e = 300;
    while !s.is_char_boundary(e) { e -= 1; }
    format!("{}…", &s[..e])
}
