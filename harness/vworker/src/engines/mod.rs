//! Rust-side engines (exhaustive enumerations with in-Rust reference models) and shared helpers.
pub mod c03;
pub mod c09;
pub mod c11;
pub mod c12;
pub mod c13;
pub mod c14;
pub mod c15;
#[cfg(feature = "fmt")]
pub mod fmtops;

use std::collections::BTreeMap;

pub fn parse_kv(args: &[String]) -> BTreeMap<String, String> {
    let mut m = BTreeMap::new();
    for a in args {
        if let Some((k, v)) = a.split_once('=') {
            m.insert(k.to_string(), v.to_string());
        }
    }
    m
}

pub fn main(args: &[String]) {
    let name = args.get(0).map(|s| s.as_str()).unwrap_or("");
    let kv = parse_kv(&args[1.min(args.len())..]);
    let _ = &kv;
    match name {
        "c03" => println!("{}", c03::run(&kv)),
        "c03fam" => println!("{}", c03::run_family(&kv)),
        "c13m" => println!("{}", c13::run(&kv)),
        "c14" => println!("{}", c14::run(&kv)),
        "c15" => println!("{}", c15::run(&kv)),
        _ => {
            eprintln!("unknown engine {}", name);
            std::process::exit(2);
        }
    }
}

/// Erase `range: …` values and `ctx: …` values in a Debug rendering, leaving string literals untouched.
pub fn scrub_debug(s: &str, erase_ctx: bool) -> String {
    let b = s.as_bytes();
    let mut out = String::with_capacity(s.len());
    let mut i = 0;
    while i < b.len() {
        let c = b[i];
        if c == b'"' {
            // copy string literal verbatim
            let st = i;
            i += 1;
            while i < b.len() && b[i] != b'"' {
                if b[i] == b'\\' { i += 1; }
                i += 1;
            }
            i += 1;
            out.push_str(&s[st..i.min(b.len())]);
            continue;
        }
        if c == b'\'' {
            // char literal: 'x' or '\n' or '\u{..}'
            let st = i;
            i += 1;
            if i < b.len() && b[i] == b'\\' {
                i += 2;
                if i <= b.len() && b[i - 1] == b'u' {
                    while i < b.len() && b[i] != b'}' { i += 1; }
                    i += 1;
                }
            } else {
                let ch = s[i..].chars().next().unwrap();
                i += ch.len_utf8();
            }
            i += 1;
            out.push_str(&s[st..i.min(b.len())]);
            continue;
        }
        if s[i..].starts_with("range: ") {
            let mut k = i + 7;
            while k < b.len() && (b[k].is_ascii_digit() || b[k] == b'.' || b[k] == b'(' || b[k] == b')') { k += 1; }
            out.push_str("range: _");
            i = k;
            continue;
        }
        if erase_ctx && s[i..].starts_with("ctx: ") {
            let mut k = i + 5;
            while k < b.len() && b[k].is_ascii_alphabetic() { k += 1; }
            out.push_str("ctx: _");
            i = k;
            continue;
        }
        let ch = s[i..].chars().next().unwrap();
        out.push(ch);
        i += ch.len_utf8();
    }
    out
}


/// What an engine covered and what failed; printed as one JSON object.
#[derive(Default)]
pub struct Report {
    pub evaluations: u64,
    pub nontrivial: u64,
    pub states: u64,
    pub transitions: u64,
    pub by_bound: BTreeMap<String, u64>,
    pub outcomes: BTreeMap<String, u64>,
    pub fail_counts: BTreeMap<String, u64>,
    pub fails: Vec<(String, String, String, String)>,
    pub samples: Vec<String>,
}

const MAX_FAILS_PER_SIG: u64 = 2000;

impl Report {
    pub fn fail(&mut self, sig: &str, input: &str, obs: &str, refv: &str) {
        let c = self.fail_counts.entry(sig.to_string()).or_insert(0);
        *c += 1;
        if *c <= MAX_FAILS_PER_SIG {
            self.fails.push((sig.to_string(), input.to_string(), obs.to_string(), refv.to_string()));
        }
    }
    pub fn outcome(&mut self, o: &str) {
        *self.outcomes.entry(o.to_string()).or_insert(0) += 1;
    }
    pub fn merge(&mut self, o: Report) {
        self.evaluations += o.evaluations;
        self.nontrivial += o.nontrivial;
        self.states += o.states;
        self.transitions += o.transitions;
        for (k, v) in o.by_bound { *self.by_bound.entry(k).or_insert(0) += v; }
        for (k, v) in o.outcomes { *self.outcomes.entry(k).or_insert(0) += v; }
        for (k, v) in o.fail_counts { *self.fail_counts.entry(k).or_insert(0) += v; }
        self.fails.extend(o.fails);
        for s in o.samples { if self.samples.len() < 12 { self.samples.push(s); } }
    }
    pub fn to_json(&self) -> String {
        use crate::dbg::json_str;
        let map = |m: &BTreeMap<String, u64>| {
            let v: Vec<String> = m.iter().map(|(k, v)| format!("{}:{}", json_str(k), v)).collect();
            format!("{{{}}}", v.join(","))
        };
        let fails: Vec<String> = self
            .fails
            .iter()
            .map(|(a, b, c, d)| format!("[{},{},{},{}]", json_str(a), json_str(b), json_str(c), json_str(d)))
            .collect();
        let samples: Vec<String> = self.samples.iter().map(|s| json_str(s)).collect();
        format!(
            "{{\"evaluations\":{},\"nontrivial\":{},\"states\":{},\"transitions\":{},\"by_bound\":{},\"outcomes\":{},\"fail_counts\":{},\"fails\":[{}],\"samples\":[{}]}}",
            self.evaluations, self.nontrivial, self.states, self.transitions, map(&self.by_bound), map(&self.outcomes), map(&self.fail_counts), fails.join(","), samples.join(",")
        )
    }
}
