//! Rust-side engines (exhaustive enumerations with in-Rust reference models) and shared helpers.
pub mod c11;
#[cfg(feature = "fmt")]
pub mod fmtops;

use std::collections::BTreeMap;

pub fn parse_kv(args: &[String]) -> BTreeMap<String, String> {
    let mut m = BTreeMap::new();
    for a in args {
        if let Some((k, v)) = a.split_once('=') {
            m.insert(k.to_string(), v.to_string());
        }
    }
    m
}

pub fn main(args: &[String]) {
    let name = args.get(0).map(|s| s.as_str()).unwrap_or("");
    let kv = parse_kv(&args[1.min(args.len())..]);
    let _ = &kv;
    match name {
        _ => {
            eprintln!("unknown engine {}", name);
            std::process::exit(2);
        }
    }
}

/// Erase `range: …` values and `ctx: …` values in a Debug rendering, leaving string literals untouched.
pub fn scrub_debug(s: &str, erase_ctx: bool) -> String {
    let b = s.as_bytes();
    let mut out = String::with_capacity(s.len());
    let mut i = 0;
    while i < b.len() {
        let c = b[i];
        if c == b'"' {
            // copy string literal verbatim
            let st = i;
            i += 1;
            while i < b.len() && b[i] != b'"' {
                if b[i] == b'\\' { i += 1; }
                i += 1;
            }
            i += 1;
            out.push_str(&s[st..i.min(b.len())]);
            continue;
        }
        if c == b'\'' {
            // char literal: 'x' or '\n' or '\u{..}'
            let st = i;
            i += 1;
            if i < b.len() && b[i] == b'\\' {
                i += 2;
                if i <= b.len() && b[i - 1] == b'u' {
                    while i < b.len() && b[i] != b'}' { i += 1; }
                    i += 1;
                }
            } else {
                let ch = s[i..].chars().next().unwrap();
                i += ch.len_utf8();
            }
            i += 1;
            out.push_str(&s[st..i.min(b.len())]);
            continue;
        }
        if s[i..].starts_with("range: ") {
            let mut k = i + 7;
            while k < b.len() && (b[k].is_ascii_digit() || b[k] == b'.' || b[k] == b'(' || b[k] == b')') { k += 1; }
            out.push_str("range: _");
            i = k;
            continue;
        }
        if erase_ctx && s[i..].starts_with("ctx: ") {
            let mut k = i + 5;
            while k < b.len() && b[k].is_ascii_alphabetic() { k += 1; }
            out.push_str("ctx: _");
            i = k;
            continue;
        }
        let ch = s[i..].chars().next().unwrap();
        out.push(ch);
        i += ch.len_utf8();
    }
    out
}
