//! C03 — lexing and parsing are total. (1) engine: every string over the alphabet up to length n, three modes, four start offsets;
//! (2) op: one text (near-valid mutations, lexeme sequences come from the orchestrator); (3) scaling families with step counts.
use super::Report;
use crate::dbg::json_str;
use crate::util::*;
use rustpython_parser::text_size::TextSize;
use rustpython_parser::{self as rp, lexer, Mode};
use std::collections::BTreeMap;

pub const SIGMA: [&str; 26] = [
    "a", "1", "_", ".", "(", ")", "[", "]", "{", "}", ":", "=", "!", "'", "\"", "\\", "#", " ", "\t", "\n", "\r", "\x0c", "é", "€", "😀", "\u{feff}",
];

fn offsets(len: usize) -> [u32; 4] {
    [0, 1, 1 << 31, (u32::MAX as u64 - 1 - len as u64) as u32]
}

/// all totality clauses for one text; returns broken clauses
pub fn check_text(src: &str, errs: &mut Vec<(String, String)>, outcome: &mut Option<String>) -> u64 {
    let mut n = 0u64;
    let len = src.len() as u64;
    for (mname, mode) in [("exec", Mode::Module), ("single", Mode::Interactive), ("eval", Mode::Expression)] {
        for &k in &offsets(src.len()) {
            n += 1;
            let r = guarded(|| rp::parse_starts_at(src, mode, "<v>", TextSize::from(k)));
            match r {
                Err(p) => errs.push((format!("parse panics ({} mode)", mname), format!("offset {}: {}", k, p))),
                Ok(Ok(_)) => {
                    if k == 0 && mname == "exec" { *outcome = Some("ok".into()); }
                }
                Ok(Err(e)) => {
                    let off = u32::from(e.offset) as u64;
                    let k = k as u64;
                    if off < k || off > k + len {
                        errs.push((format!("error offset outside [start, start+len] ({} mode)", mname), format!("start {} len {} offset {} error {:?}", k, len, off, e.error)));
                    } else if !src.is_char_boundary((off - k) as usize) {
                        errs.push((format!("error offset not on a character boundary ({} mode)", mname), format!("start {} offset {} error {:?}", k, off, e.error)));
                    }
                    if k == 0 && mname == "exec" {
                        let s = format!("{:?}", e.error);
                        *outcome = Some(s.split(|c| c == '(' || c == ' ').next().unwrap_or("").to_string());
                    }
                }
            }
        }
        // token stream: finite, ends at the first error
        n += 1;
        let cap = 2 * src.len() + 4;
        let r = guarded(|| {
            let mut count = 0usize;
            let mut after_err = 0usize;
            let mut seen_err = false;
            // the claim is about the stream up to and including its first error
            for t in lexer::lex(src, mode) {
                count += 1;
                if seen_err { after_err += 1; }
                if t.is_err() { seen_err = true; break; }
                if count > cap + 8 { break; }
            }
            (count, after_err)
        });
        match r {
            Err(p) => errs.push((format!("lexer panics ({} mode)", mname), p)),
            Ok((count, _after)) => {
                if count > cap {
                    errs.push((format!("token stream longer than 2*len+4 ({} mode)", mname), format!("{} items for {} bytes", count, src.len())));
                }
            }
        }
    }
    n
}

pub fn op(src: &str) -> String {
    let mut errs = Vec::new();
    let mut outcome = None;
    let n = check_text(src, &mut errs, &mut outcome);
    if errs.is_empty() {
        return format!("{{\"ok\":{},\"cls\":{}}}", n, json_str(&outcome.unwrap_or_default()));
    }
    let v: Vec<String> = errs.iter().map(|(a, b)| format!("[{},{},\"\"]", json_str(a), json_str(b))).collect();
    format!("{{\"n\":{},\"fail\":[{}]}}", n, v.join(","))
}

pub fn run(kv: &BTreeMap<String, String>) -> String {
    let n: usize = kv.get("n").map(|s| s.parse().unwrap()).unwrap_or(4);
    let k: usize = kv.get("sigma").map(|s| s.parse().unwrap()).unwrap_or(SIGMA.len());
    let ns = k * k;
    let parts = par_shards(ns, 64 << 20, move |shard, nshards| {
        let mut rep = Report::default();
        let alpha = &SIGMA[..k];
        for_each_string(alpha, n, shard, nshards, &mut |t, len| {
            let mut errs = Vec::new();
            let mut outcome = None;
            let c = check_text(t, &mut errs, &mut outcome);
            rep.evaluations += 1;
            rep.transitions += c;
            *rep.by_bound.entry(format!("len={}", len)).or_insert(0) += 1;
            if let Some(o) = outcome { rep.outcome(&o); }
            if errs.is_empty() {
                rep.nontrivial += 1;
            }
            for (sig, detail) in errs {
                rep.fail(&sig, t, &detail, "total");
            }
        });
        rep
    });
    let mut rep = Report::default();
    for p in parts { rep.merge(p); }
    rep.states = rep.evaluations;
    rep.samples.push("a(\\n'".into());
    rep.to_json()
}

// ---------------------------------------------------------------- scaling families
fn family(name: &str, k: usize) -> Option<String> {
    let rep = |s: &str| s.repeat(k);
    Some(match name {
        "paren-nest" => format!("{}a{}", rep("("), rep(")")),
        "bracket-nest" => format!("{}a{}", rep("["), rep("]")),
        "brace-nest" => format!("{}a{}", rep("{"), rep("}")),
        "unclosed-paren" => rep("("),
        "close-only" => rep(")"),
        "not-chain" => format!("{}a", rep("not ")),
        "minus-chain" => format!("{}a", rep("-")),
        "power-chain" => format!("a{}", rep("**a")),
        "attr-chain" => format!("a{}", rep(".b")),
        "call-chain" => format!("a{}", rep("(b)")),
        "subscript-chain" => format!("a{}", rep("[b]")),
        "binop-chain" => format!("a{}", rep("+a")),
        "compare-chain" => format!("a{}", rep("<a")),
        "bool-chain" => format!("a{}", rep(" and a")),
        "ifexp-chain" => format!("{}a", rep("a if b else ")),
        "lambda-chain" => format!("{}a", rep("lambda:")),
        "await-chain" => format!("{}a", rep("await ")),
        "tuple-long" => format!("a{}", rep(",a")),
        "list-long" => format!("[a{}]", rep(",a")),
        "dict-long" => format!("{{a:a{}}}", rep(",a:a")),
        "call-args" => format!("f(a{})", rep(",a")),
        "kwargs" => format!("f({})", (0..k).map(|i| format!("k{}=a", i)).collect::<Vec<_>>().join(",")),
        "params" => format!("def f({}): pass", (0..k).map(|i| format!("p{}", i)).collect::<Vec<_>>().join(",")),
        "string-concat" => rep("'s' "),
        "fstring-fields" => format!("f'{}'", rep("{a}")),
        "fstring-nested" => {
            let mut s = String::from("a");
            for i in 0..k.min(200) { s = if i % 2 == 0 { format!("f'{{{}}}'", s) } else { format!("f\"{{{}}}\"", s) }; }
            s
        }
        "blocks-nested" => { let mut s = String::new(); for i in 0..k { s.push_str(&" ".repeat(i)); s.push_str("if a:\n"); } s.push_str(&" ".repeat(k)); s.push_str("pass\n"); s }
        "dedents-at-once" => { let mut s = String::new(); for i in 0..k { s.push_str(&" ".repeat(i)); s.push_str("if a:\n"); } s.push_str(&" ".repeat(k)); s.push_str("pass\na\n"); s }
        "elif-chain" => format!("if a: pass\n{}", rep("elif a: pass\n")),
        "statements" => rep("a = 1\n"),
        "semicolons" => format!("a{}", rep(";a")),
        "match-soft" => format!("{} = 1", rep("match ").trim_end()),
        "match-lines" => rep("match = 1\n"),
        "case-lines" => format!("match a:\n{}", rep(" case 1: pass\n")),
        "continuation" => format!("a = 1{}", rep(" \\\n + 1")),
        "blank-lines" => format!("a{}", rep("\n")),
        "comment-lines" => rep("# c\n"),
        "long-name" => rep("a"),
        "long-int" => rep("9"),
        "long-string" => format!("'{}'", rep("x")),
        "backslashes" => rep("\\"),
        "quotes" => rep("'"),
        "decorators" => format!("{}def f(): pass", rep("@a\n")),
        "with-items" => format!("with a{}: pass", rep(", a")),
        "import-dots" => format!("from {}a import b", rep(".")),
        "star-targets" => format!("{}a = b", rep("a, ")),
        "walrus-nest" => format!("{}a{}", rep("(a:="), rep(")")),
        "dict-nest" => format!("{}a{}", rep("{a:"), rep("}")),
        "pattern-nest" => format!("match a:\n case {}b{}: pass", rep("["), rep("]")),
        _ => return None,
    })
}

pub const FAMILIES: [&str; 50] = [
    "paren-nest", "bracket-nest", "brace-nest", "unclosed-paren", "close-only", "not-chain", "minus-chain", "power-chain", "attr-chain", "call-chain", "subscript-chain",
    "binop-chain", "compare-chain", "bool-chain", "ifexp-chain", "lambda-chain", "await-chain", "tuple-long", "list-long", "dict-long", "call-args", "kwargs", "params",
    "string-concat", "fstring-fields", "fstring-nested", "blocks-nested", "dedents-at-once", "elif-chain", "statements", "semicolons", "match-soft", "match-lines", "case-lines",
    "continuation", "blank-lines", "comment-lines", "long-name", "long-int", "long-string", "backslashes", "quotes", "decorators", "with-items", "import-dots", "star-targets",
    "walrus-nest", "dict-nest", "pattern-nest", "statements",
];

/// run one family at one size on a thread with an 8 MiB stack; prints {"steps":…, "outcome":…, "micros":…}
pub fn run_family(kv: &BTreeMap<String, String>) -> String {
    let name = kv.get("family").cloned().unwrap_or_default();
    let k: usize = kv.get("k").map(|s| s.parse().unwrap()).unwrap_or(1);
    let Some(text) = family(&name, k) else { return "{\"machinery\":\"unknown family\"}".into() };
    let len = text.len();
    let h = std::thread::Builder::new()
        .stack_size(8 << 20)
        .spawn(move || {
            let t0 = std::time::Instant::now();
            rustpython_parser::verif::reset_steps();
            let r = guarded(|| rp::parse(&text, Mode::Module, "<v>"));
            let steps = rustpython_parser::verif::steps();
            let outcome = match r {
                Ok(Ok(_)) => "ok".to_string(),
                Ok(Err(e)) => format!("err {}", format!("{:?}", e.error).chars().take(60).collect::<String>()),
                Err(p) => format!("PANIC {}", p),
            };
            (steps, outcome, t0.elapsed().as_micros() as u64)
        })
        .unwrap();
    match h.join() {
        Ok((steps, outcome, micros)) => format!("{{\"family\":{},\"k\":{},\"len\":{},\"steps\":{},\"outcome\":{},\"micros\":{}}}", json_str(&name), k, len, steps, json_str(&outcome), micros),
        Err(_) => format!("{{\"family\":{},\"k\":{},\"outcome\":\"thread died\"}}", json_str(&name), k),
    }
}
