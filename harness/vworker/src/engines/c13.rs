//! C13 — row/column locations. (1) op: one module text -> LinearLocator fold == RandomLocator fold == reference rendering;
//! (2) engine: explicit-state search of the LinearLocator cursor machine (state read through hook H4).
use super::Report;
use crate::dbg::json_str;
use crate::util::*;
use rustpython_ast::fold::Fold;
use rustpython_ast::source_code::{LinearLocator, RandomLocator, SourceLocation};
use rustpython_parser::text_size::TextSize;
use rustpython_parser::{parse, Mode};
use std::collections::{BTreeMap, BTreeSet, VecDeque};

/// boring reference: (row, column), both 1-based; CR, LF, CRLF one break each; characters, not bytes; a leading BOM is not counted
pub fn ref_location(text: &str, offset: usize) -> (u32, u32) {
    let b = text.as_bytes();
    let mut row = 1u32;
    let mut line_start = 0usize;
    let mut i = 0usize;
    while i < b.len() {
        let e = if b[i] == b'\n' {
            i + 1
        } else if b[i] == b'\r' {
            if i + 1 < b.len() && b[i + 1] == b'\n' { i + 2 } else { i + 1 }
        } else {
            i += 1;
            continue;
        };
        if e > offset {
            break;
        }
        row += 1;
        line_start = e;
        i = e;
    }
    let mut col = text[line_start..offset].chars().count() as u32;
    if row == 1 && text.starts_with('\u{feff}') && offset >= 3 {
        col -= 1;
    }
    (row, col + 1)
}

fn loc_str(l: (u32, u32)) -> String {
    format!("SourceLocation {{ row: {}, column: {} }}", l.0, l.1)
}

/// rewrite every `range: a..b` of a Debug rendering into the Debug rendering of the expected SourceRange (string literals skipped)
fn reference_located(dbg: &str, text: &str) -> String {
    let b = dbg.as_bytes();
    let mut out = String::with_capacity(dbg.len() * 3);
    let mut i = 0;
    while i < b.len() {
        let c = b[i];
        if c == b'"' {
            let st = i;
            i += 1;
            while i < b.len() && b[i] != b'"' {
                if b[i] == b'\\' { i += 1; }
                i += 1;
            }
            i += 1;
            out.push_str(&dbg[st..i.min(b.len())]);
            continue;
        }
        if c == b'\'' {
            let st = i;
            i += 1;
            if i < b.len() && b[i] == b'\\' {
                i += 2;
                if b[i - 1] == b'u' {
                    while i < b.len() && b[i] != b'}' { i += 1; }
                    i += 1;
                }
            } else {
                let ch = dbg[i..].chars().next().unwrap();
                i += ch.len_utf8();
            }
            i += 1;
            out.push_str(&dbg[st..i.min(b.len())]);
            continue;
        }
        if dbg[i..].starts_with("range: ") && i + 7 < b.len() && b[i + 7].is_ascii_digit() {
            let mut k1 = i + 7;
            while b[k1].is_ascii_digit() { k1 += 1; }
            let a: usize = dbg[i + 7..k1].parse().unwrap();
            let mut k2 = k1 + 2;
            while k2 < b.len() && b[k2].is_ascii_digit() { k2 += 1; }
            let e: usize = dbg[k1 + 2..k2].parse().unwrap();
            out.push_str(&format!(
                "range: SourceRange {{ start: {}, end: Some({}) }}",
                loc_str(ref_location(text, a)),
                loc_str(ref_location(text, e))
            ));
            i = k2;
            continue;
        }
        let ch = dbg[i..].chars().next().unwrap();
        out.push(ch);
        i += ch.len_utf8();
    }
    out
}

fn first_diff(a: &str, b: &str) -> (String, String) {
    let ab = a.as_bytes();
    let bb = b.as_bytes();
    let mut i = 0;
    while i < ab.len() && i < bb.len() && ab[i] == bb[i] { i += 1; }
    let mut st = i.saturating_sub(60);
    while !a.is_char_boundary(st) { st -= 1; }
    let cut = |s: &str| {
        let mut st2 = st.min(s.len());
        while !s.is_char_boundary(st2) { st2 -= 1; }
        let mut e = (st2 + 160).min(s.len());
        while !s.is_char_boundary(e) { e -= 1; }
        s[st2..e].to_string()
    };
    (cut(a), cut(b))
}

pub fn op(src: &str, mode: Mode) -> String {
    let mut errs: Vec<(String, String, String)> = Vec::new();
    let mut n = 0u64;
    match parse(src, mode, "<v>") {
        Err(e) => {
            // error offsets convert the same way with both locators
            let off = u32::from(e.offset) as usize;
            if off > src.len() || !src.is_char_boundary(off) {
                return format!("{{\"skip\":\"error offset not locatable (C03)\"}}");
            }
            let want = ref_location(src, off);
            let r = RandomLocator::new(src).locate(e.offset);
            n += 1;
            if (r.row.get(), r.column.get()) != want {
                errs.push(("RandomLocator places the error offset elsewhere than the reference".into(), format!("{:?}", r), loc_str(want)));
            }
            let src2 = src.to_string();
            let off2 = e.offset;
            let l = guarded(move || {
                let mut ll = LinearLocator::new(&src2);
                ll.locate(off2)
            });
            n += 1;
            match l {
                Ok(l) => if (l.row.get(), l.column.get()) != want {
                    errs.push(("LinearLocator places the error offset elsewhere than the reference".into(), format!("{:?}", l), loc_str(want)));
                },
                Err(p) => errs.push(("LinearLocator panics on the error offset".into(), p, loc_str(want))),
            }
            if errs.is_empty() {
                return format!("{{\"ok\":{},\"cls\":\"error\"}}", n);
            }
        }
        Ok(tree) => {
            let d0 = format!("{:?}", tree);
            let want = reference_located(&d0, src);
            let random = {
                let t = tree.clone();
                let s = src.to_string();
                guarded(move || format!("{:?}", RandomLocator::new(&s).fold(t).unwrap()))
            };
            n += 1;
            let mut random_str = None;
            match random {
                Ok(r) => {
                    if r != want {
                        let (a, b) = first_diff(&r, &want);
                        errs.push(("RandomLocator result differs from the reference locations".into(), a, b));
                    }
                    random_str = Some(r);
                }
                Err(p) => errs.push(("RandomLocator panics".into(), p, "no panic".into())),
            }
            let linear = {
                let t = tree.clone();
                let s = src.to_string();
                guarded(move || format!("{:?}", LinearLocator::new(&s).fold(t).unwrap()))
            };
            n += 2;
            match linear {
                Ok(l) => {
                    if let Some(r) = &random_str {
                        if &l != r {
                            let (a, b) = first_diff(&l, r);
                            errs.push(("LinearLocator and RandomLocator disagree".into(), a, b));
                        }
                    }
                    if l != want && random_str.as_deref() == Some(want.as_str()) {
                        // already reported as a disagreement
                    } else if l != want && random_str.is_none() {
                        let (a, b) = first_diff(&l, &want);
                        errs.push(("LinearLocator result differs from the reference locations".into(), a, b));
                    }
                }
                Err(p) => {
                    let msg = p.split(" @ ").next().unwrap_or("").to_string();
                    let short: String = msg.chars().take(60).collect();
                    errs.push((format!("LinearLocator panics ({})", short.split(':').next().unwrap_or("")), p, "no panic".into()));
                }
            }
            if errs.is_empty() {
                let rows = src.bytes().filter(|c| *c == b'\n' || *c == b'\r').count().min(6);
                return format!("{{\"ok\":{},\"cls\":\"rows~{} ascii={}\"}}", n, rows, src.is_ascii());
            }
        }
    }
    let v: Vec<String> = errs.iter().map(|(a, b, c)| format!("[{},{},{}]", json_str(a), json_str(b), json_str(c))).collect();
    format!("{{\"n\":{},\"fail\":[{}]}}", n, v.join(","))
}

// ---------------------------------------------------------------- E-STATE: the cursor machine
type St = (u32, Option<u32>, u32, u32, bool);

fn replay(text: &str, path: &[u32]) -> Result<(St, Vec<SourceLocation>), String> {
    let t = text.to_string();
    let p = path.to_vec();
    guarded(move || {
        let mut l = LinearLocator::new(&t);
        let mut out = Vec::new();
        for &o in &p {
            out.push(l.locate(TextSize::from(o)));
        }
        (l.verif_state(), out)
    })
}

fn machine_for_text(text: &str, rep: &mut Report) {
    // events: every character boundary except the middle of a CRLF pair (no node range or error offset produced by the parser
    // points between the two bytes of one line break; C15 covers the line index on such offsets)
    let tb = text.as_bytes();
    let offsets: Vec<u32> = (0..=text.len())
        .filter(|&o| text.is_char_boundary(o) && !(o > 0 && o < tb.len() && tb[o - 1] == b'\r' && tb[o] == b'\n'))
        .map(|o| o as u32)
        .collect();
    let init = match replay(text, &[]) {
        Ok((s, _)) => s,
        Err(p) => { rep.fail("locator machine · panic in new()", text, &p, "no panic"); return; }
    };
    // BFS over canonical states; a state is represented by a shortest event history reaching it
    let mut seen: BTreeMap<St, Vec<u32>> = BTreeMap::new();
    let mut by_cursor: BTreeMap<u32, BTreeSet<St>> = BTreeMap::new();
    seen.insert(init, vec![]);
    by_cursor.entry(init.3).or_default().insert(init);
    let mut q: VecDeque<St> = VecDeque::new();
    q.push_back(init);
    while let Some(st) = q.pop_front() {
        let path = seen[&st].clone();
        rep.states += 1;
        for &o in offsets.iter().filter(|&&o| o >= st.3) {
            let mut p2 = path.clone();
            p2.push(o);
            rep.transitions += 1;
            rep.evaluations += 1;
            match replay(text, &p2) {
                Err(p) => {
                    rep.fail("locator machine · locate panics", &format!("{:?} path={:?}", text, p2), &p, "no panic");
                }
                Ok((s2, locs)) => {
                    let got = locs.last().unwrap();
                    let want = ref_location(text, o as usize);
                    if (got.row.get(), got.column.get()) != want {
                        rep.fail("locator machine · locate differs from the reference", &format!("{:?} path={:?}", text, p2), &format!("{:?}", got), &loc_str(want));
                    }
                    if s2.3 != o {
                        rep.fail("locator machine · cursor is not the located offset", &format!("{:?} path={:?}", text, p2), &format!("{:?}", s2), &format!("cursor {}", o));
                    }
                    if !seen.contains_key(&s2) {
                        seen.insert(s2, p2.clone());
                        by_cursor.entry(s2.3).or_default().insert(s2);
                        q.push_back(s2);
                    }
                }
            }
        }
        // locate_only from this state: every offset at or after the current line start, result only, state unchanged
        let t = text.to_string();
        let pth = path.clone();
        let offs: Vec<u32> = offsets.iter().copied().filter(|&o| o >= st.0).collect();
        let r = guarded(move || {
            let mut l = LinearLocator::new(&t);
            for &o in &pth { l.locate(TextSize::from(o)); }
            let mut out = Vec::new();
            for &o in &offs {
                let before = l.verif_state();
                let loc = l.locate_only(TextSize::from(o));
                out.push((o, loc, before == l.verif_state()));
            }
            out
        });
        match r {
            Err(p) => rep.fail("locator machine · locate_only panics", &format!("{:?} path={:?}", text, path), &p, "no panic"),
            Ok(v) => for (o, loc, same) in v {
                rep.transitions += 1;
                let want = ref_location(text, o as usize);
                if (loc.row.get(), loc.column.get()) != want {
                    rep.fail("locator machine · locate_only differs from the reference", &format!("{:?} path={:?} only={}", text, path, o), &format!("{:?}", loc), &loc_str(want));
                }
                if !same {
                    rep.fail("locator machine · locate_only changes the state", &format!("{:?} path={:?} only={}", text, path, o), "state changed", "state unchanged");
                }
            },
        }
    }
    // the abstraction: the state is a function of the cursor (what justifies merging histories)
    for (cur, set) in &by_cursor {
        if set.len() > 1 {
            rep.fail("locator machine · two histories with the same cursor reach different states", &format!("{:?} cursor={}", text, cur), &format!("{:?}", set), "one state per cursor");
        }
    }
    rep.outcome(&format!("states={}", seen.len().min(12)));
}

pub fn run(kv: &BTreeMap<String, String>) -> String {
    let n: usize = kv.get("n").map(|s| s.parse().unwrap()).unwrap_or(6);
    const NS: usize = 25;
    let parts = par_shards(NS, 16 << 20, move |shard, _| {
        let mut rep = Report::default();
        // U+FEFF is a BOM only at offset 0; anywhere else (e.g. first on a later line) it is an ordinary character that takes a column
        let alpha = ["a", "é", "\n", "\r", "\u{feff}"];
        for_each_string(&alpha, n, shard, NS, &mut |t, len| {
            machine_for_text(t, &mut rep);
            *rep.by_bound.entry(format!("len={}", len)).or_insert(0) += 1;
            if t.contains('\n') || t.contains('\r') { rep.nontrivial += 1; }
        });
        rep
    });
    let mut rep = Report::default();
    for p in parts { rep.merge(p); }
    rep.samples.push("é\\r\\na\\n path=[0,2,4,5]".into());
    rep.to_json()
}
