//! C15 engine — position primitives against boring in-Rust reference models.
//!  (a) LineIndex / SourceCode on every text over the alphabet up to length n x every char-boundary offset x every line number
//!  (b) UniversalNewlineIterator: explicit exploration of every next()/next_back() interleaving to exhaustion
//!  (c) TextRange / TextSize algebra on every pair of ranges with endpoints in a boundary set
use super::Report;
use crate::util::*;
use rustpython_parser_vendored::source_location::newlines::{find_newline, LineEnding, NewlineWithTrailingNewline, UniversalNewlineIterator};
use rustpython_parser_vendored::source_location::{LineIndex, OneIndexed, SourceCode};
use rustpython_parser_vendored::text_size::{TextLen, TextRange, TextSize};
use std::collections::BTreeMap;

/// reference line splitter: (start, end_without_newline, full_end) for each line; CR, LF, CRLF each one break.
/// A text always has at least one line; a trailing break opens a last empty line (line-index view).
fn ref_lines(text: &str) -> Vec<(usize, usize, usize)> {
    let b = text.as_bytes();
    let mut out = Vec::new();
    let mut start = 0;
    let mut i = 0;
    while i < b.len() {
        if b[i] == b'\n' {
            out.push((start, i, i + 1));
            i += 1;
            start = i;
        } else if b[i] == b'\r' {
            let e = if i + 1 < b.len() && b[i + 1] == b'\n' { i + 2 } else { i + 1 };
            out.push((start, i, e));
            i = e;
            start = i;
        } else {
            i += 1;
        }
    }
    out.push((start, b.len(), b.len()));
    out
}

fn check_line_index(text: &str, rep: &mut Report) {
    let lines = ref_lines(text);
    let r = guarded(|| {
        let mut errs: Vec<(String, String, String)> = Vec::new();
        let index = LineIndex::from_source_text(text);
        let sc = SourceCode::new(text, &index);
        let bom = text.starts_with('\u{feff}');
        if sc.line_count() != lines.len() {
            errs.push(("line_count".into(), format!("{}", sc.line_count()), format!("{}", lines.len())));
        }
        for o in 0..=text.len() {
            if !text.is_char_boundary(o) {
                continue;
            }
            // reference: last line whose start <= o
            let mut row = 0;
            for (k, l) in lines.iter().enumerate() {
                if l.0 <= o {
                    row = k;
                }
            }
            let ls = lines[row].0;
            let mut col = text[ls..o].chars().count();
            if row == 0 && bom && o >= 3 {
                col -= 1;
            }
            let off = TextSize::try_from(o).unwrap();
            let loc = sc.source_location(off);
            if loc.row.to_zero_indexed_usize() != row || loc.column.to_zero_indexed_usize() != col {
                errs.push((
                    format!("source_location({})", o),
                    format!("row {} col {}", loc.row.get(), loc.column.get()),
                    format!("row {} col {}", row + 1, col + 1),
                ));
            }
            if sc.line_index(off).to_zero_indexed_usize() != row {
                errs.push((format!("line_index({})", o), format!("{}", sc.line_index(off).get()), format!("{}", row + 1)));
            }
            if sc.up_to(off) != &text[..o] || sc.after(off) != &text[o..] {
                errs.push((format!("up_to/after({})", o), "differs".into(), "prefix/suffix".into()));
            }
        }
        let mut concat = String::new();
        for k in 0..=lines.len() {
            let line = OneIndexed::from_zero_indexed(k as u32);
            let (s, e) = if k < lines.len() { (lines[k].0, lines[k].2) } else { (text.len(), text.len()) };
            let gs = usize::from(sc.line_start(line));
            let ge = usize::from(sc.line_end(line));
            let gr = sc.line_range(line);
            if gs != s {
                errs.push((format!("line_start({})", k + 1), format!("{}", gs), format!("{}", s)));
            }
            if ge != e {
                errs.push((format!("line_end({})", k + 1), format!("{}", ge), format!("{}", e)));
            }
            if (usize::from(gr.start()), usize::from(gr.end())) != (s, e) {
                errs.push((format!("line_range({})", k + 1), format!("{:?}", gr), format!("{}..{}", s, e)));
            }
            let lt = sc.line_text(line);
            if lt != &text[s..e] {
                errs.push((format!("line_text({})", k + 1), format!("{:?}", lt), format!("{:?}", &text[s..e])));
            }
            if k < lines.len() {
                concat.push_str(lt);
            }
            if sc.slice(TextRange::new(TextSize::try_from(s).unwrap(), TextSize::try_from(e).unwrap())) != &text[s..e] {
                errs.push((format!("slice({}..{})", s, e), "differs".into(), "substring".into()));
            }
        }
        if concat != text {
            errs.push(("lines concatenate to the text".into(), format!("{:?}", concat), format!("{:?}", text)));
        }
        if index.line_starts().len() != lines.len() {
            errs.push(("line_starts().len()".into(), format!("{}", index.line_starts().len()), format!("{}", lines.len())));
        }
        errs
    });
    match r {
        Ok(errs) => {
            for (what, obs, refv) in errs {
                let w = what.split('(').next().unwrap_or("").to_string();
                rep.fail(&format!("line-index · {} differs from the reference", w), text, &format!("{} = {}", what, obs), &refv);
            }
        }
        Err(p) => rep.fail("line-index · panic", text, &p, "no panic"),
    }
    let kinds: String = lines.iter().map(|l| match l.2 - l.1 { 0 => 'e', 1 => if text.as_bytes()[l.1] == b'\n' { 'n' } else { 'r' }, _ => 'c' }).collect();
    rep.outcome(&format!("line-index:{} lines, endings {}", lines.len(), if kinds.len() <= 4 { kinds } else { format!("{}…", &kinds[..4]) }));
    rep.evaluations += 1;
}

/// reference lines for the iterator view: a trailing break does NOT open a last empty line; the empty text has no lines
fn ref_iter_lines(text: &str) -> Vec<(usize, usize, usize)> {
    let mut l = ref_lines(text);
    if let Some(last) = l.last() {
        if last.0 == last.2 {
            l.pop();
        }
    }
    l
}

fn line_matches(text: &str, base: usize, l: &rustpython_parser_vendored::source_location::newlines::Line, r: (usize, usize, usize)) -> Option<String> {
    let (s, e, fe) = (r.0 + base, r.1 + base, r.2 + base);
    if usize::from(l.start()) != s { return Some(format!("start {} != {}", usize::from(l.start()), s)); }
    if usize::from(l.end()) != e { return Some(format!("end {} != {}", usize::from(l.end()), e)); }
    if usize::from(l.full_end()) != fe { return Some(format!("full_end {} != {}", usize::from(l.full_end()), fe)); }
    if l.as_str() != &text[r.0..r.1] { return Some(format!("as_str {:?} != {:?}", l.as_str(), &text[r.0..r.1])); }
    if l.as_full_str() != &text[r.0..r.2] { return Some(format!("as_full_str {:?} != {:?}", l.as_full_str(), &text[r.0..r.2])); }
    // comparison and deref views of a line are its text without the terminator
    let want = &text[r.0..r.1];
    if !(*l == want) || !(want == *l) || &**l != want { return Some(format!("Line == &str / Deref disagree with as_str for {:?}", want)); }
    if r.2 > r.1 && (*l == &text[r.0..r.2]) { return Some(format!("Line == its text with the terminator {:?}", &text[r.0..r.2])); }
    if (usize::from(l.range().start()), usize::from(l.range().end())) != (s, e) { return Some("range".into()); }
    if (usize::from(l.full_range().start()), usize::from(l.full_range().end())) != (s, fe) { return Some("full_range".into()); }
    if usize::from(l.full_text_len()) != r.2 - r.0 { return Some("full_text_len".into()); }
    None
}

/// every interleaving of next()/next_back() until both ends report exhaustion twice
fn check_newline_iter(text: &str, rep: &mut Report, states: &mut u64, transitions: &mut u64) {
    let lines = ref_iter_lines(text);
    let n = lines.len();
    // states of the abstract machine: (taken from front, taken from back)
    *states += ((n + 1) * (n + 2) / 2) as u64;
    for base in [0usize, 7] {
        // all op sequences of length n+2 (the last two ops must observe exhaustion from either end)
        let len = n + 2;
        for mask in 0u32..(1u32 << len) {
            let r = guarded(|| {
                let mut it = UniversalNewlineIterator::with_offset(text, TextSize::try_from(base).unwrap());
                let (mut i, mut j) = (0usize, 0usize);
                let mut trans = 0u64;
                for k in 0..len {
                    let back = (mask >> k) & 1 == 1;
                    let got = if back { it.next_back() } else { it.next() };
                    trans += 1;
                    if i + j < n {
                        let expect = if back { lines[n - 1 - j] } else { lines[i] };
                        match got {
                            None => return Err((format!("{}: returned None with {} lines left", if back { "next_back" } else { "next" }, n - i - j), trans)),
                            Some(l) => {
                                if let Some(why) = line_matches(text, base, &l, expect) {
                                    return Err((format!("{} after {} front / {} back: {}", if back { "next_back" } else { "next" }, i, j, why), trans));
                                }
                            }
                        }
                        if back { j += 1 } else { i += 1 }
                    } else if got.is_some() {
                        return Err((format!("{}: yields a line after exhaustion", if back { "next_back" } else { "next" }), trans));
                    }
                }
                Ok(trans)
            });
            match r {
                Ok(Ok(t)) => *transitions += t,
                Ok(Err((why, t))) => {
                    *transitions += t;
                    let ops: String = (0..len).map(|k| if (mask >> k) & 1 == 1 { 'B' } else { 'F' }).collect();
                    rep.fail("newline-iterator · interleaving differs from the reference deque", &format!("{:?} ops={} base={}", text, ops, base), &why, "reference lines");
                }
                Err(p) => {
                    let ops: String = (0..len).map(|k| if (mask >> k) & 1 == 1 { 'B' } else { 'F' }).collect();
                    rep.fail("newline-iterator · panic", &format!("{:?} ops={} base={}", text, ops, base), &p, "no panic");
                }
            }
            rep.evaluations += 1;
        }
    }
    // NewlineWithTrailingNewline, find_newline, last()
    let r = guarded(|| {
        let mut errs = Vec::new();
        let got: Vec<(usize, String)> = NewlineWithTrailingNewline::from(text).map(|l| (usize::from(l.start()), l.as_full_str().to_string())).collect();
        let mut want: Vec<(usize, String)> = lines.iter().map(|r| (r.0, text[r.0..r.2].to_string())).collect();
        if text.ends_with('\n') || text.ends_with('\r') {
            want.push((text.len(), String::new()));
        }
        if got != want {
            errs.push(format!("NewlineWithTrailingNewline {:?} != {:?}", got, want));
        }
        let fnl = find_newline(text).map(|(p, e)| (p, e.len(), e == LineEnding::CrLf));
        let want_nl = if lines.is_empty() || lines[0].1 == lines[0].2 { None } else { Some((lines[0].1, lines[0].2 - lines[0].1, lines[0].2 - lines[0].1 == 2)) };
        if fnl != want_nl {
            errs.push(format!("find_newline {:?} != {:?}", fnl, want_nl));
        }
        let last = UniversalNewlineIterator::from(text).last().map(|l| usize::from(l.start()));
        if last != lines.last().map(|r| r.0) {
            errs.push(format!("last() {:?}", last));
        }
        let cnt = UniversalNewlineIterator::from(text).count();
        if cnt != n {
            errs.push(format!("count {} != {}", cnt, n));
        }
        errs
    });
    match r {
        Ok(errs) => for e in errs { rep.fail("newline-iterator · helper differs from the reference", text, &e, "reference lines"); },
        Err(p) => rep.fail("newline-iterator · panic", text, &p, "no panic"),
    }
    rep.evaluations += 1;
}

const SIGMA: [&str; 6] = ["a", "é", "\n", "\r", "😀", "\u{feff}"];

fn text_part(n: usize, iter_n: usize) -> (Report, u64, u64) {
    const NS: usize = 36;
    let parts = par_shards(NS, 16 << 20, move |shard, nshards| {
        let mut rep = Report::default();
        let (mut states, mut transitions) = (0u64, 0u64);
        // U+FEFF is a BOM only at offset 0; anywhere else it is an ordinary (zero-width) character that takes a column, so it is a full member
        // of the alphabet
        let alpha = &SIGMA[..];
        for_each_string(alpha, n, shard, NS, &mut |t, len| {
            check_line_index(t, &mut rep);
            *rep.by_bound.entry(format!("line-index len={}", len)).or_insert(0) += 1;
            let wide = t.contains('😀') || t.contains('\u{feff}');
            let breaks = t.bytes().filter(|b| *b == b'\n' || *b == b'\r').count();
            if len <= iter_n && (!wide || breaks <= 2) {
                check_newline_iter(t, &mut rep, &mut states, &mut transitions);
                *rep.by_bound.entry(format!("newline-iter len={}", len)).or_insert(0) += 1;
            }
            if t.contains('\n') || t.contains('\r') { rep.nontrivial += 1; }
        });
        let _ = nshards;
        (rep, states, transitions)
    });
    let mut rep = Report::default();
    let (mut s, mut t) = (0, 0);
    for (r, a, b) in parts {
        rep.merge(r);
        s += a;
        t += b;
    }
    (rep, s, t)
}

// ---------------------------------------------------------------- range algebra
fn range_part() -> Report {
    let mut rep = Report::default();
    let mut pts: Vec<u64> = (0..=6).collect();
    pts.extend([u32::MAX as u64 - 2, u32::MAX as u64 - 1, u32::MAX as u64]);
    let ts = |x: u64| TextSize::from(x as u32);
    let mut ranges: Vec<(u64, u64)> = Vec::new();
    for &a in &pts {
        for &b in &pts {
            if a <= b {
                ranges.push((a, b));
            }
        }
    }
    let text = "abcdef";
    let max = u32::MAX as u64;
    macro_rules! cmp {
        ($rep:expr, $what:expr, $inp:expr, $got:expr, $want:expr) => {{
            $rep.evaluations += 1;
            let w = $want;
            // an operation that is not documented to panic must not: a panic is an observation, never an engine crash
            match guarded(|| $got) {
                Err(p) => $rep.fail(&format!("range-algebra · {} panics", $what), &$inp, &p, &format!("{:?}", w)),
                Ok(g) => {
                    let d = format!("{:?}", w);
                    let class = if d.starts_with("None") { "None/panic" } else if d.starts_with("Some") { "Some" } else if d == "true" || d == "false" || d == "Less" || d == "Greater" || d == "Equal" { d.as_str() } else { "value" };
                    $rep.outcome(&format!("range:{}:{}", $what, class));
                    if g != w {
                        $rep.fail(&format!("range-algebra · {} differs from the set reading", $what), &$inp, &format!("{:?}", g), &format!("{:?}", w));
                    }
                }
            }
        }};
    }
    // Result<T, panic> vs Option<T>: documented-to-panic operations must panic exactly when the reference is None
    fn pg<T>(f: impl FnOnce() -> T) -> Option<T> {
        guarded(f).ok()
    }
    let rr = |r: TextRange| (u32::from(r.start()) as u64, u32::from(r.end()) as u64);
    for &a in &pts {
        for &b in &pts {
            let inp = format!("new({},{})", a, b);
            cmp!(rep, "new", inp, pg(|| rr(TextRange::new(ts(a), ts(b)))), if a <= b { Some((a, b)) } else { None });
            let inp = format!("at({},{})", a, b);
            cmp!(rep, "at", inp, pg(|| rr(TextRange::at(ts(a), ts(b)))), if a + b <= max { Some((a, a + b)) } else { None });
            cmp!(rep, "TextSize::checked_add", format!("{}+{}", a, b), ts(a).checked_add(ts(b)).map(|x| u32::from(x) as u64), if a + b <= max { Some(a + b) } else { None });
            cmp!(rep, "TextSize::checked_sub", format!("{}-{}", a, b), ts(a).checked_sub(ts(b)).map(|x| u32::from(x) as u64), if a >= b { Some(a - b) } else { None });
            cmp!(rep, "TextSize +", format!("{}+{}", a, b), pg(|| u32::from(ts(a) + ts(b)) as u64), if a + b <= max { Some(a + b) } else { None });
            cmp!(rep, "TextSize -", format!("{}-{}", a, b), pg(|| u32::from(ts(a) - ts(b)) as u64), if a >= b { Some(a - b) } else { None });
            cmp!(rep, "TextSize ordering", format!("{} cmp {}", a, b), ts(a).cmp(&ts(b)), a.cmp(&b));
        }
        cmp!(rep, "empty", format!("empty({})", a), rr(TextRange::empty(ts(a))), (a, a));
        cmp!(rep, "up_to", format!("up_to({})", a), rr(TextRange::up_to(ts(a))), (0, a));
        cmp!(rep, "TextSize conversions", format!("{}", a), (u32::from(ts(a)) as u64, usize::from(ts(a)) as u64, ts(a).to_u32() as u64, ts(a).to_usize() as u64, TextSize::try_from(a as usize).ok().map(|x| u32::from(x) as u64)), (a, a, a, a, Some(a)));
    }
    cmp!(rep, "TextSize::try_from(usize)", "2^32".to_string(), TextSize::try_from(1usize << 32).is_err(), true);
    cmp!(rep, "TextSize::of / text_len", "é".to_string(), (u32::from(TextSize::of("é")), u32::from('é'.text_len()), u32::from("a😀".text_len())), (2, 2, 5));
    cmp!(rep, "Sum", "1+2+3".to_string(), u32::from([ts(1), ts(2), ts(3)].into_iter().sum::<TextSize>()), 6);
    for &(s, e) in &ranges {
        let r = TextRange::new(ts(s), ts(e));
        cmp!(rep, "len/is_empty", format!("{}..{}", s, e), (u32::from(r.len()) as u64, r.is_empty()), (e - s, e == s));
        for &o in &pts {
            let inp = format!("{}..{} o={}", s, e, o);
            cmp!(rep, "contains", inp, r.contains(ts(o)), s <= o && o < e);
            cmp!(rep, "contains_inclusive", inp, r.contains_inclusive(ts(o)), s <= o && o <= e);
            cmp!(rep, "cover_offset", inp, rr(r.cover_offset(ts(o))), (s.min(o), e.max(o)));
            cmp!(rep, "checked_add", inp, r.checked_add(ts(o)).map(rr), if e + o <= max { Some((s + o, e + o)) } else { None });
            cmp!(rep, "checked_sub", inp, r.checked_sub(ts(o)).map(rr), if s >= o { Some((s - o, e - o)) } else { None });
            cmp!(rep, "range + offset", inp, pg(|| rr(r + ts(o))), if e + o <= max { Some((s + o, e + o)) } else { None });
            cmp!(rep, "range - offset", inp, pg(|| rr(r - ts(o))), if s >= o { Some((s - o, e - o)) } else { None });
            cmp!(rep, "add_start", inp, pg(|| rr(r.add_start(ts(o)))), if s + o <= e { Some((s + o, e)) } else { None });
            cmp!(rep, "sub_start", inp, pg(|| rr(r.sub_start(ts(o)))), if s >= o { Some((s - o, e)) } else { None });
            cmp!(rep, "add_end", inp, pg(|| rr(r.add_end(ts(o)))), if e + o <= max { Some((s, e + o)) } else { None });
            cmp!(rep, "sub_end", inp, pg(|| rr(r.sub_end(ts(o)))), if e >= o && e - o >= s { Some((s, e - o)) } else { None });
        }
        if e <= 6 {
            cmp!(rep, "Index<TextRange> for str", format!("{}..{}", s, e), pg(|| text[r].to_string()), Some(text[s as usize..e as usize].to_string()));
        }
        for &(s2, e2) in &ranges {
            let r2 = TextRange::new(ts(s2), ts(e2));
            let inp = format!("{}..{} vs {}..{}", s, e, s2, e2);
            cmp!(rep, "contains_range", inp, r.contains_range(r2), s <= s2 && e2 <= e);
            let (is, ie) = (s.max(s2), e.min(e2));
            cmp!(rep, "intersect", inp, r.intersect(r2).map(rr), if ie >= is { Some((is, ie)) } else { None });
            cmp!(rep, "cover", inp, rr(r.cover(r2)), (s.min(s2), e.max(e2)));
            let ord = if e <= s2 { std::cmp::Ordering::Less } else if e2 <= s { std::cmp::Ordering::Greater } else { std::cmp::Ordering::Equal };
            cmp!(rep, "ordering", inp, r.ordering(r2), ord);
            cmp!(rep, "equality", inp, r == r2, (s, e) == (s2, e2));
            rep.nontrivial += 1;
        }
    }
    *rep.by_bound.entry("range-algebra evaluations".into()).or_insert(0) = rep.evaluations;
    rep
}

pub fn run(kv: &BTreeMap<String, String>) -> String {
    let n: usize = kv.get("n").map(|s| s.parse().unwrap()).unwrap_or(6);
    let iter_n: usize = kv.get("iter_n").map(|s| s.parse().unwrap()).unwrap_or(6);
    let (mut rep, states, transitions) = text_part(n, iter_n);
    rep.merge(range_part());
    rep.states = states;
    rep.transitions = transitions;
    rep.samples.push("a\\r\\né\\n".into());
    rep.samples.push("\\ufeffa\\rb".into());
    rep.samples.push("new(4294967295,3) / 2..5 vs 5..6".into());
    rep.to_json()
}
