//! C09 — start offsets only translate positions; all entry points agree. One text in, list of broken relations out.
//! Reference model: the result of `parse(text, mode)` at offset 0, shifted / projected here.
use super::scrub_debug;
use crate::dbg::json_str;
use rustpython_parser::text_size::TextSize;
use rustpython_parser::{self as rp, ast, lexer, Mode, Parse};

/// add k to every `range: a..b` and to nothing else (string / char literals are skipped)
pub fn shift_debug(s: &str, k: u64) -> String {
    let b = s.as_bytes();
    let mut out = String::with_capacity(s.len() + 16);
    let mut i = 0;
    while i < b.len() {
        let c = b[i];
        if c == b'"' {
            let st = i;
            i += 1;
            while i < b.len() && b[i] != b'"' {
                if b[i] == b'\\' { i += 1; }
                i += 1;
            }
            i += 1;
            out.push_str(&s[st..i.min(b.len())]);
            continue;
        }
        if c == b'\'' {
            let st = i;
            i += 1;
            if i < b.len() && b[i] == b'\\' {
                i += 2;
                if b[i - 1] == b'u' {
                    while i < b.len() && b[i] != b'}' { i += 1; }
                    i += 1;
                }
            } else {
                let ch = s[i..].chars().next().unwrap();
                i += ch.len_utf8();
            }
            i += 1;
            out.push_str(&s[st..i.min(b.len())]);
            continue;
        }
        if s[i..].starts_with("range: ") && i + 7 < b.len() && b[i + 7].is_ascii_digit() {
            let mut k1 = i + 7;
            while b[k1].is_ascii_digit() { k1 += 1; }
            let a: u64 = s[i + 7..k1].parse().unwrap();
            let mut k2 = k1 + 2;
            while k2 < b.len() && b[k2].is_ascii_digit() { k2 += 1; }
            let e: u64 = s[k1 + 2..k2].parse().unwrap();
            out.push_str(&format!("range: {}..{}", a + k, e + k));
            i = k2;
            continue;
        }
        let ch = s[i..].chars().next().unwrap();
        out.push(ch);
        i += ch.len_utf8();
    }
    out
}

fn res_str<T: std::fmt::Debug>(r: &Result<T, rp::ParseError>, shift: u64) -> String {
    match r {
        Ok(t) => format!("Ok {}", shift_debug(&format!("{:?}", t), shift)),
        Err(e) => format!("Err {:?} @{}", e.error, u32::from(e.offset) as u64 + shift),
    }
}

fn lex_str(src: &str, mode: Mode, k: u32, shift: u64) -> String {
    let mut out = String::new();
    let cap = 2 * src.len() + 16;
    for (n, r) in lexer::lex_starts_at(src, mode, TextSize::from(k)).enumerate() {
        if n > cap { out.push_str("RUNAWAY"); break; }
        match r {
            Ok((t, r)) => out.push_str(&format!("{:?}@{}..{} ", t, u32::from(r.start()) as u64 + shift, u32::from(r.end()) as u64 + shift)),
            Err(e) => { out.push_str(&format!("ERR {:?}@{}", e.error, u32::from(e.location) as u64 + shift)); break; }
        }
    }
    out
}

macro_rules! typed_stmt {
    ($errs:expr, $n:expr, $src:expr, $k:expr, $stmt:expr, $( $ty:ident => $var:ident ),* ) => {
        $(
            {
                let got = res_str(&ast::$ty::parse_starts_at($src, "<v>", TextSize::from($k)), 0);
                let want = match $stmt {
                    Ok(ast::Stmt::$var(n)) => format!("Ok {:?}", n),
                    Ok(other) => format!("Err InvalidToken @{}", u32::from(rustpython_ast::Ranged::start(other))),
                    Err(e) => format!("Err {:?} @{}", e.error, u32::from(e.offset)),
                };
                $n += 1;
                if got != want { $errs.push((format!("typed parser {} is not the projection of Stmt::parse (offset {})", stringify!($ty), $k), got, want)); }
            }
        )*
    };
}
macro_rules! typed_expr {
    ($errs:expr, $n:expr, $src:expr, $k:expr, $expr:expr, $( $ty:ident => $var:ident ),* ) => {
        $(
            {
                let got = res_str(&ast::$ty::parse_starts_at($src, "<v>", TextSize::from($k)), 0);
                let want = match $expr {
                    Ok(ast::Expr::$var(n)) => format!("Ok {:?}", n),
                    Ok(other) => format!("Err InvalidToken @{}", u32::from(rustpython_ast::Ranged::start(other))),
                    Err(e) => format!("Err {:?} @{}", e.error, u32::from(e.offset)),
                };
                $n += 1;
                if got != want { $errs.push((format!("typed parser {} is not the projection of Expr::parse (offset {})", stringify!($ty), $k), got, want)); }
            }
        )*
    };
}

pub fn check_text(src: &str, full: bool) -> (u64, Vec<(String, String, String)>) {
    let mut errs: Vec<(String, String, String)> = Vec::new();
    let mut n = 0u64;
    let len = src.len() as u64;
    let offsets: Vec<u32> = {
        let mut v = vec![1u32, 7, 400, 1 << 31];
        let top = (u32::MAX as u64).saturating_sub(len + 1);
        v.push(top as u32);
        v
    };
    for (mname, mode) in [("exec", Mode::Module), ("single", Mode::Interactive), ("eval", Mode::Expression)] {
        let base = rp::parse(src, mode, "<v>");
        let base0 = res_str(&base, 0);
        let baselex = lex_str(src, mode, 0, 0);
        // parse == parse_starts_at(0) == parse_tokens(lex)
        let r0 = res_str(&rp::parse_starts_at(src, mode, "<v>", TextSize::from(0)), 0);
        n += 1;
        if r0 != base0 { errs.push((format!("{}: parse_starts_at(0) differs from parse", mname), r0, base0.clone())); }
        let rt = res_str(&rp::parse_tokens(lexer::lex(src, mode), mode, "<v>"), 0);
        n += 1;
        if rt != base0 { errs.push((format!("{}: parse_tokens(lex) differs from parse", mname), rt, base0.clone())); }
        for &k in &offsets {
            let want = match &base {
                Ok(t) => format!("Ok {}", shift_debug(&format!("{:?}", t), k as u64)),
                Err(e) => format!("Err {:?} @{}", e.error, u32::from(e.offset) as u64 + k as u64),
            };
            let got = res_str(&rp::parse_starts_at(src, mode, "<v>", TextSize::from(k)), 0);
            n += 1;
            if got != want { errs.push((format!("{}: parse_starts_at({}) is not parse shifted", mname, if k > 1000 { "large".to_string() } else { k.to_string() }), got, want.clone())); }
            let gl = lex_str(src, mode, k, 0);
            let wl = lex_str(src, mode, 0, k as u64);
            n += 1;
            if gl != wl { errs.push((format!("{}: lex_starts_at({}) is not lex shifted", mname, if k > 1000 { "large".to_string() } else { k.to_string() }), gl, wl)); }
            if full {
                // a token stream without any token carries no position: parse_tokens cannot know the start offset then
                let has_token = lexer::lex_starts_at(src, mode, TextSize::from(k)).next().is_some();
                if has_token {
                    let gt = res_str(&rp::parse_tokens(lexer::lex_starts_at(src, mode, TextSize::from(k)), mode, "<v>"), 0);
                    n += 1;
                    if gt != want { errs.push((format!("{}: parse_tokens(lex_starts_at(k)) is not parse shifted", mname), gt, want)); }
                }
            }
        }
        let _ = baselex;
    }
    // ---- entry points as views of one parser (offset 0 and 7)
    for &k in &[0u32, 7] {
        let module = rp::parse_starts_at(src, Mode::Module, "<v>", TextSize::from(k));
        let body: Result<Vec<ast::Stmt>, &rp::ParseError> = match &module {
            Ok(ast::Mod::Module(m)) => Ok(m.body.clone()),
            Ok(_) => unreachable!(),
            Err(e) => Err(e),
        };
        let body_str = match &body { Ok(b) => format!("Ok {:?}", b), Err(e) => format!("Err {:?} @{}", e.error, u32::from(e.offset)) };
        // interactive == module body
        let inter = rp::parse_starts_at(src, Mode::Interactive, "<v>", TextSize::from(k));
        let inter_str = match &inter { Ok(ast::Mod::Interactive(m)) => format!("Ok {:?}", m.body), Ok(_) => unreachable!(), Err(e) => format!("Err {:?} @{}", e.error, u32::from(e.offset)) };
        n += 1;
        if inter_str != body_str { errs.push((format!("interactive mode is not the module body (offset {})", k), inter_str, body_str.clone())); }
        // Suite, ModModule, ModInteractive, deprecated parse_program
        let suite = res_str(&ast::Suite::parse_starts_at(src, "<v>", TextSize::from(k)), 0);
        n += 1;
        if suite != body_str { errs.push((format!("Suite::parse is not the module body (offset {})", k), suite, body_str.clone())); }
        let mm = match ast::ModModule::parse_starts_at(src, "<v>", TextSize::from(k)) { Ok(m) => format!("Ok {:?}", m.body), Err(e) => format!("Err {:?} @{}", e.error, u32::from(e.offset)) };
        n += 1;
        if mm != body_str { errs.push((format!("ModModule::parse is not the module body (offset {})", k), mm, body_str.clone())); }
        let mi = match ast::ModInteractive::parse_starts_at(src, "<v>", TextSize::from(k)) { Ok(m) => format!("Ok {:?}", m.body), Err(e) => format!("Err {:?} @{}", e.error, u32::from(e.offset)) };
        n += 1;
        if mi != body_str { errs.push((format!("ModInteractive::parse is not the module body (offset {})", k), mi, body_str.clone())); }
        if k == 0 {
            #[allow(deprecated)]
            let pp = res_str(&rp::parse_program(src, "<v>"), 0);
            n += 1;
            if pp != body_str { errs.push(("parse_program is not the module body".into(), pp, body_str.clone())); }
            let pm = res_str(&ast::Suite::parse(src, "<v>"), 0);
            n += 1;
            if pm != body_str { errs.push(("Suite::parse (no offset) is not the module body".into(), pm, body_str.clone())); }
            let pw = res_str(&ast::Suite::parse_without_path(src), 0);
            n += 1;
            if pw != body_str { errs.push(("Suite::parse_without_path is not the module body".into(), pw, body_str.clone())); }
        }
        // Stmt::parse = the single statement
        let stmt = ast::Stmt::parse_starts_at(src, "<v>", TextSize::from(k));
        let stmt_want = match &body {
            Ok(b) if b.len() == 1 => format!("Ok {:?}", b[0]),
            Ok(b) if b.is_empty() => format!("Err Eof @{}", k),
            Ok(b) => format!("Err InvalidToken @{}", u32::from(rustpython_ast::Ranged::start(&b[1]))),
            Err(e) => format!("Err {:?} @{}", e.error, u32::from(e.offset)),
        };
        let stmt_got = res_str(&stmt, 0);
        n += 1;
        if stmt_got != stmt_want { errs.push((format!("Stmt::parse is not the single statement of the module (offset {})", k), stmt_got, stmt_want)); }
        // expression mode == the expression statement of module mode (yield exemption taken from the reference)
        let expr = ast::Expr::parse_starts_at(src, "<v>", TextSize::from(k));
        let emode = rp::parse_starts_at(src, Mode::Expression, "<v>", TextSize::from(k));
        let emode_str = match &emode { Ok(ast::Mod::Expression(m)) => format!("Ok {:?}", m.body), Ok(_) => unreachable!(), Err(e) => format!("Err {:?} @{}", e.error, u32::from(e.offset)) };
        let expr_str = res_str(&expr, 0);
        n += 1;
        if expr_str != emode_str { errs.push((format!("Expr::parse is not the expression-mode body (offset {})", k), expr_str.clone(), emode_str.clone())); }
        let mex = match ast::ModExpression::parse_starts_at(src, "<v>", TextSize::from(k)) { Ok(m) => format!("Ok {:?}", m.body), Err(e) => format!("Err {:?} @{}", e.error, u32::from(e.offset)) };
        n += 1;
        if mex != emode_str { errs.push((format!("ModExpression::parse is not the expression-mode body (offset {})", k), mex, emode_str.clone())); }
        if k == 0 {
            #[allow(deprecated)]
            let pe = res_str(&rp::parse_expression(src, "<v>"), 0);
            n += 1;
            if pe != expr_str { errs.push(("parse_expression differs from Expr::parse".into(), pe, expr_str.clone())); }
        } else {
            #[allow(deprecated)]
            let pe = res_str(&rp::parse_expression_starts_at(src, "<v>", TextSize::from(k)), 0);
            n += 1;
            if pe != expr_str { errs.push(("parse_expression_starts_at differs from Expr::parse_starts_at".into(), pe, expr_str.clone())); }
        }
        match (&emode, &body) {
            (Ok(ast::Mod::Expression(m)), Ok(b)) => {
                n += 1;
                let ok = b.len() == 1 && matches!(&b[0], ast::Stmt::Expr(s) if format!("{:?}", s.value) == format!("{:?}", m.body));
                if !ok {
                    errs.push((format!("expression mode accepts, module mode is not [Expr(that expression)] (offset {})", k), format!("{:?}", m.body), body_str.clone()));
                }
            }
            (Ok(ast::Mod::Expression(m)), Err(e)) => {
                n += 1;
                errs.push((format!("expression mode accepts, module mode rejects (offset {})", k), format!("{:?}", m.body), format!("Err {:?}", e.error)));
            }
            // the converse does not hold and is not claimed: `a ;` or a bare `yield` are statements that expression mode rejects (as CPython does)
            _ => {}
        }
        // Identifier / Constant
        let ident = res_str(&ast::Identifier::parse_starts_at(src, "<v>", TextSize::from(k)), 0);
        let ident_want = match &expr {
            Ok(ast::Expr::Name(nm)) => format!("Ok {:?}", nm.id),
            Ok(other) => format!("Err InvalidToken @{}", u32::from(rustpython_ast::Ranged::start(other))),
            Err(e) => format!("Err {:?} @{}", e.error, u32::from(e.offset)),
        };
        n += 1;
        if ident != ident_want { errs.push((format!("Identifier::parse is not the projection of Expr::parse (offset {})", k), ident, ident_want)); }
        let cons = res_str(&ast::Constant::parse_starts_at(src, "<v>", TextSize::from(k)), 0);
        let cons_want = match &expr {
            Ok(ast::Expr::Constant(c)) => format!("Ok {:?}", c.value),
            Ok(other) => format!("Err InvalidToken @{}", u32::from(rustpython_ast::Ranged::start(other))),
            Err(e) => format!("Err {:?} @{}", e.error, u32::from(e.offset)),
        };
        n += 1;
        if cons != cons_want { errs.push((format!("Constant::parse is not the projection of Expr::parse (offset {})", k), cons, cons_want)); }
        if full || k == 7 {
            typed_stmt!(errs, n, src, k, &stmt,
                StmtFunctionDef => FunctionDef, StmtAsyncFunctionDef => AsyncFunctionDef, StmtClassDef => ClassDef, StmtReturn => Return, StmtDelete => Delete,
                StmtAssign => Assign, StmtTypeAlias => TypeAlias, StmtAugAssign => AugAssign, StmtAnnAssign => AnnAssign, StmtFor => For, StmtAsyncFor => AsyncFor,
                StmtWhile => While, StmtIf => If, StmtWith => With, StmtAsyncWith => AsyncWith, StmtMatch => Match, StmtRaise => Raise, StmtTry => Try,
                StmtTryStar => TryStar, StmtAssert => Assert, StmtImport => Import, StmtImportFrom => ImportFrom, StmtGlobal => Global, StmtNonlocal => Nonlocal,
                StmtExpr => Expr, StmtPass => Pass, StmtBreak => Break, StmtContinue => Continue);
            typed_expr!(errs, n, src, k, &expr,
                ExprBoolOp => BoolOp, ExprNamedExpr => NamedExpr, ExprBinOp => BinOp, ExprUnaryOp => UnaryOp, ExprLambda => Lambda, ExprIfExp => IfExp, ExprDict => Dict,
                ExprSet => Set, ExprListComp => ListComp, ExprSetComp => SetComp, ExprDictComp => DictComp, ExprGeneratorExp => GeneratorExp, ExprAwait => Await,
                ExprYield => Yield, ExprYieldFrom => YieldFrom, ExprCompare => Compare, ExprCall => Call, ExprFormattedValue => FormattedValue, ExprJoinedStr => JoinedStr,
                ExprConstant => Constant, ExprAttribute => Attribute, ExprSubscript => Subscript, ExprStarred => Starred, ExprName => Name, ExprList => List,
                ExprTuple => Tuple, ExprSlice => Slice);
        }
    }
    let _ = scrub_debug;
    (n, errs)
}

pub fn op(src: &str, full: bool) -> String {
    let (n, errs) = check_text(src, full);
    if errs.is_empty() {
        // outcome class (for the vacuity statistics only): what each mode made of the text
        let cls: Vec<String> = [("exec", Mode::Module), ("eval", Mode::Expression)]
            .iter()
            .map(|(m, mode)| match rp::parse(src, *mode, "<v>") {
                Ok(_) => format!("{}=ok", m),
                Err(e) => format!("{}={}", m, format!("{:?}", e.error).split('(').next().unwrap_or("").to_string()),
            })
            .collect();
        return format!("{{\"ok\":{},\"cls\":{}}}", n, json_str(&cls.join(",")));
    }
    let v: Vec<String> = errs.iter().map(|(a, b, c)| format!("[{},{},{}]", json_str(a), json_str(&trunc(b)), json_str(&trunc(c)))).collect();
    format!("{{\"n\":{},\"fail\":[{}]}}", n, v.join(","))
}

fn trunc(s: &str) -> String {
    if s.len() <= 400 { return s.to_string(); }
    let mut e = 400;
    while !s.is_char_boundary(e) { e -= 1; }
    format!("{}…", &s[..e])
}

pub fn mode_from_str_check() -> Vec<(String, String, String)> {
    // Mode::from_str on every string of <=6 letters over the letters of exec/eval/single: exactly the three names are accepted
    let letters = ["e", "x", "c", "v", "a", "l", "s", "i", "n", "g"];
    let mut errs = Vec::new();
    crate::util::for_each_string(&letters, 6, 0, 1, &mut |t, _| {
        let got = t.parse::<Mode>();
        let want_ok = t == "exec" || t == "eval" || t == "single";
        if got.is_ok() != want_ok {
            errs.push(("Mode::from_str accepts exactly exec/eval/single".to_string(), format!("{:?} -> {}", t, got.is_ok()), format!("{}", want_ok)));
        } else if let Ok(m) = got {
            let ok = match t { "eval" => m == Mode::Expression, "exec" => m == Mode::Module, _ => m == Mode::Module || m == Mode::Interactive };
            if !ok { errs.push(("Mode::from_str maps to the wrong mode".to_string(), t.to_string(), String::new())); }
        }
    });
    errs
}
