//! C11: unparse / re-parse round trip of one expression text (relcheck protocol).
use super::scrub_debug;
use crate::dbg::json_str;
use rustpython_parser::{ast, Parse};

pub fn unparse_one(src: &str) -> String {
    match ast::Expr::parse(src, "<v>") {
        Err(e) => format!("{{\"skip\":{}}}", json_str(&format!("{:?}", e.error))),
        Ok(e1) => {
            let t1 = format!("{}", e1);
            let kind = format!("{:?}", e1);
            let kind = kind.split('(').next().unwrap_or("").to_string();
            match ast::Expr::parse(&t1, "<u>") {
                Err(e) => format!(
                    "{{\"n\":1,\"fail\":[[\"rendering is not accepted by the parser\",{},{}]]}}",
                    json_str(&format!("{} -> {:?} @{}", t1, e.error, u32::from(e.offset))),
                    json_str("Ok")
                ),
                Ok(e2) => {
                    let d1 = scrub_debug(&format!("{:?}", e1), true);
                    let d2 = scrub_debug(&format!("{:?}", e2), true);
                    let t2 = format!("{}", e2);
                    if d1 != d2 {
                        format!("{{\"n\":2,\"fail\":[[\"re-parsed tree differs from the original\",{},{}]]}}", json_str(&format!("{} -> {}", t1, trunc(&d2))), json_str(&trunc(&d1)))
                    } else if t1 != t2 {
                        format!("{{\"n\":3,\"fail\":[[\"rendering is not a fixed point\",{},{}]]}}", json_str(&t2), json_str(&t1))
                    } else {
                        format!("{{\"ok\":3,\"cls\":{}}}", json_str(&kind))
                    }
                }
            }
        }
    }
}

fn trunc(s: &str) -> String {
    if s.len() <= 300 { return s.to_string(); }
    let mut e = 300;
    while !s.is_char_boundary(e) { e -= 1; }
    format!("{}…", &s[..e])
}
