//! C11: unparse / re-parse round trip of one expression text.
use crate::dbg::json_str;
use super::scrub_debug;
use rustpython_parser::{ast, Parse};

/// {"skip":…} if the text is not an expression; {"ok":text}; or {"fail":kind,"text":…,…}
pub fn unparse_one(src: &str) -> String {
    match ast::Expr::parse(src, "<v>") {
        Err(e) => format!("{{\"skip\":{}}}", json_str(&format!("{:?}", e.error))),
        Ok(e1) => {
            let t1 = format!("{}", e1);
            match ast::Expr::parse(&t1, "<u>") {
                Err(e) => format!(
                    "{{\"fail\":\"reparse-error\",\"text\":{},\"err\":{}}}",
                    json_str(&t1),
                    json_str(&format!("{:?}", e.error))
                ),
                Ok(e2) => {
                    let d1 = scrub_debug(&format!("{:?}", e1), true);
                    let d2 = scrub_debug(&format!("{:?}", e2), true);
                    let t2 = format!("{}", e2);
                    if d1 != d2 {
                        format!("{{\"fail\":\"tree-diff\",\"text\":{},\"d1\":{},\"d2\":{}}}", json_str(&t1), json_str(&d1), json_str(&d2))
                    } else if t1 != t2 {
                        format!("{{\"fail\":\"not-fixpoint\",\"text\":{},\"text2\":{}}}", json_str(&t1), json_str(&t2))
                    } else {
                        format!("{{\"ok\":{}}}", json_str(&t1))
                    }
                }
            }
        }
    }
}
