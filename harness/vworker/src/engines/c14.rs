//! C14 engine — conversions between the per-parameter-default form (`Arguments`) and the Python-style form
//! (`PythonArguments`), on the complete product of signature shapes up to the bound, against a reference
//! written here (plain lists of (name, annotation, default)).
use super::Report;
use crate::util::*;
use rustpython_parser::{ast, Parse};
use std::collections::BTreeMap;

#[derive(Clone, Debug, PartialEq)]
struct P {
    name: String,
    ann: Option<String>,
    default: Option<String>,
}

struct Sig {
    posonly: Vec<P>,
    args: Vec<P>,
    vararg: Option<P>,
    bare_star: bool,
    kwonly: Vec<P>,
    kwarg: Option<P>,
}

fn render(sig: &Sig, lambda: bool) -> String {
    let mut parts: Vec<String> = Vec::new();
    let one = |p: &P| {
        let mut s = p.name.clone();
        if let (Some(a), false) = (&p.ann, lambda) {
            s.push_str(": ");
            s.push_str(a);
        }
        if let Some(d) = &p.default {
            s.push_str(if p.ann.is_some() && !lambda { " = " } else { "=" });
            s.push_str(d);
        }
        s
    };
    for p in &sig.posonly {
        parts.push(one(p));
    }
    if !sig.posonly.is_empty() {
        parts.push("/".into());
    }
    for p in &sig.args {
        parts.push(one(p));
    }
    if let Some(v) = &sig.vararg {
        parts.push(format!("*{}", one(v)));
    } else if sig.bare_star {
        parts.push("*".into());
    }
    for p in &sig.kwonly {
        parts.push(one(p));
    }
    if let Some(k) = &sig.kwarg {
        parts.push(format!("**{}", one(k)));
    }
    if lambda {
        format!("lambda {}: 0", parts.join(", "))
    } else {
        format!("def f({}): pass", parts.join(", "))
    }
}

fn expr_src(src: &str, e: &ast::Expr) -> String {
    use rustpython_ast::Ranged;
    src[e.range()].to_string()
}

fn arg_p(src: &str, a: &ast::Arg, default: Option<&ast::Expr>) -> P {
    P {
        name: a.arg.to_string(),
        ann: a.annotation.as_ref().map(|e| expr_src(src, e)),
        default: default.map(|e| expr_src(src, e)),
    }
}

fn awd_list(src: &str, v: &[ast::ArgWithDefault]) -> Vec<P> {
    v.iter().map(|a| arg_p(src, &a.def, a.default.as_deref())).collect()
}

fn check(sig: &Sig, lambda: bool, valid_order: bool, rep: &mut Report) {
    let src = render(sig, lambda);
    let strip = |v: &Vec<P>| -> Vec<P> {
        v.iter().map(|p| P { name: p.name.clone(), ann: if lambda { None } else { p.ann.clone() }, default: p.default.clone() }).collect()
    };
    let strip1 = |p: &Option<P>| p.as_ref().map(|p| P { name: p.name.clone(), ann: if lambda { None } else { p.ann.clone() }, default: None });
    let r = guarded(|| -> Result<(), (String, String, String)> {
        let args: ast::Arguments = if lambda {
            match ast::Expr::parse(&src, "<v>") {
                Ok(ast::Expr::Lambda(l)) => *l.args,
                Err(_) if !valid_order => return Err(("skip".into(), String::new(), String::new())),
                other => return Err(("machinery".into(), format!("{:?}", other.map(|_| ())), "lambda".into())),
            }
        } else {
            match ast::Stmt::parse(&src, "<v>") {
                Ok(ast::Stmt::FunctionDef(f)) => *f.args,
                Err(_) if !valid_order => return Err(("skip".into(), String::new(), String::new())),
                other => return Err(("machinery".into(), format!("{:?}", other.map(|_| ())), "def".into())),
            }
        };
        // (0) the parser's own form is what was written
        let want = (strip(&sig.posonly), strip(&sig.args), strip1(&sig.vararg), strip(&sig.kwonly), strip1(&sig.kwarg));
        let got = (
            awd_list(&src, &args.posonlyargs),
            awd_list(&src, &args.args),
            args.vararg.as_ref().map(|a| arg_p(&src, a, None)),
            awd_list(&src, &args.kwonlyargs),
            args.kwarg.as_ref().map(|a| arg_p(&src, a, None)),
        );
        if got != want {
            return Err(("parsed signature differs from the text".into(), format!("{:?}", got), format!("{:?}", want)));
        }
        // (1) Python-style form
        let py = args.to_python_arguments();
        let py2 = args.clone().into_python_arguments();
        if py != py2 {
            return Err(("to_python_arguments and into_python_arguments disagree".into(), format!("{:?}", py2), format!("{:?}", py)));
        }
        let py3: ast::PythonArguments = args.clone().into();
        if py != py3 {
            return Err(("From<Arguments> disagrees with to_python_arguments".into(), String::new(), String::new()));
        }
        let names = |v: &[ast::Arg]| -> Vec<P> { v.iter().map(|a| arg_p(&src, a, None)).collect() };
        let nodef = |v: &Vec<P>| -> Vec<P> { v.iter().map(|p| P { default: None, ..p.clone() }).collect() };
        if names(&py.posonlyargs) != nodef(&want.0) || names(&py.args) != nodef(&want.1) {
            return Err(("python form · positional parameters changed".into(), format!("{:?} / {:?}", names(&py.posonlyargs), names(&py.args)), format!("{:?} / {:?}", want.0, want.1)));
        }
        let pos_defaults: Vec<String> = want.0.iter().chain(want.1.iter()).filter_map(|p| p.default.clone()).collect();
        let got_defaults: Vec<String> = py.defaults.iter().map(|e| expr_src(&src, e)).collect();
        if got_defaults != pos_defaults {
            return Err(("python form · defaults list differs".into(), format!("{:?}", got_defaults), format!("{:?}", pos_defaults)));
        }
        if py.vararg.as_ref().map(|a| arg_p(&src, a, None)) != want.2 || py.kwarg.as_ref().map(|a| arg_p(&src, a, None)) != want.4 {
            return Err(("python form · vararg/kwarg changed".into(), String::new(), String::new()));
        }
        // keyword-only: same set; those without defaults come before those with; kw_defaults pair up with the trailing ones
        let kwn = names(&py.kwonlyargs);
        let mut a: Vec<P> = kwn.clone();
        let mut b: Vec<P> = nodef(&want.3);
        a.sort_by(|x, y| x.name.cmp(&y.name));
        b.sort_by(|x, y| x.name.cmp(&y.name));
        if a != b {
            return Err(("python form · keyword-only parameter set changed".into(), format!("{:?}", kwn), format!("{:?}", want.3)));
        }
        let nd = py.kw_defaults.len();
        let with_def: Vec<&P> = want.3.iter().filter(|p| p.default.is_some()).collect();
        if nd != with_def.len() {
            return Err(("python form · kw_defaults has the wrong length".into(), format!("{}", nd), format!("{}", with_def.len())));
        }
        let split = kwn.len() - nd;
        for (i, p) in kwn.iter().enumerate() {
            let own = want.3.iter().find(|q| q.name == p.name).unwrap();
            if i < split {
                if own.default.is_some() {
                    return Err(("python form · keyword-only parameter with a default listed among those without".into(), format!("{:?}", kwn), format!("{:?}", want.3)));
                }
            } else {
                let d = expr_src(&src, &py.kw_defaults[i - split]);
                if own.default.as_deref() != Some(d.as_str()) {
                    return Err(("python form · keyword-only default attached to the wrong parameter".into(), format!("{}={}", p.name, d), format!("{:?}", own)));
                }
            }
        }
        // (2) back conversion
        let back = py.into_arguments();
        let gb = (
            awd_list(&src, &back.posonlyargs),
            awd_list(&src, &back.args),
            back.vararg.as_ref().map(|a| arg_p(&src, a, None)),
            awd_list(&src, &back.kwonlyargs),
            back.kwarg.as_ref().map(|a| arg_p(&src, a, None)),
        );
        if gb.0 != want.0 || gb.1 != want.1 {
            return Err(("round trip · positional parameters or their defaults changed".into(), format!("{:?} / {:?}", gb.0, gb.1), format!("{:?} / {:?}", want.0, want.1)));
        }
        if gb.2 != want.2 || gb.4 != want.4 {
            return Err(("round trip · vararg/kwarg changed".into(), String::new(), String::new()));
        }
        let mut x = gb.3.clone();
        let mut y = want.3.clone();
        x.sort_by(|p, q| p.name.cmp(&q.name));
        y.sort_by(|p, q| p.name.cmp(&q.name));
        if x != y {
            return Err(("round trip · keyword-only parameters or their defaults changed".into(), format!("{:?}", gb.3), format!("{:?}", want.3)));
        }
        Ok(())
    });
    rep.evaluations += 1;
    let shape = format!(
        "{}{}/{}{}{}",
        if lambda { "lambda " } else { "def " },
        sig.posonly.len(),
        sig.args.len(),
        if sig.vararg.is_some() { "*v" } else if sig.bare_star { "*" } else { "" },
        sig.kwonly.iter().map(|p| if p.default.is_some() { 'D' } else { 'n' }).collect::<String>()
    );
    rep.outcome(&shape);
    if !sig.kwonly.is_empty() || sig.posonly.len() + sig.args.len() > 0 {
        rep.nontrivial += 1;
    }
    match r {
        Ok(Ok(())) => {}
        Ok(Err((what, obs, refv))) => {
            if what == "skip" {
                // a non-default parameter after a default one: the parser rejects it, there is no signature to convert
                rep.outcome("invalid default order rejected by the parser");
                return;
            }
            if what == "machinery" {
                eprintln!("c14: generated signature does not parse: {} ({})", src, obs);
                std::process::exit(2);
            }
            rep.fail(&what, &src, &obs, &refv)
        }
        Err(p) => rep.fail("panic", &src, &p, "no panic"),
    }
}

pub fn run(kv: &BTreeMap<String, String>) -> String {
    let maxpo: usize = kv.get("posonly").map(|s| s.parse().unwrap()).unwrap_or(2);
    let maxa: usize = kv.get("args").map(|s| s.parse().unwrap()).unwrap_or(2);
    let maxk: usize = kv.get("kwonly").map(|s| s.parse().unwrap()).unwrap_or(2);
    let mut rep = Report::default();
    for npo in 0..=maxpo {
        for na in 0..=maxa {
            // every subset of the positional parameters carries a default: the valid ones (a trailing run) are converted; the others must be
            // rejected by the parser, and whatever it lets through is converted as well (a wrongly accepted order would lose or move defaults)
            for pmask in 0..(1u32 << (npo + na)) {
                for var in 0..3 {
                    for nk in 0..=maxk {
                        if var == 2 && nk == 0 {
                            continue; // a bare * needs a keyword-only parameter after it
                        }
                        if var == 0 && nk > 0 {
                            continue; // keyword-only parameters need * or *args before them
                        }
                        for kmask in 0..(1u32 << nk) {
                            for kwarg in 0..2 {
                                for ann in 0..16u32 {
                                    // annotation flags per kind; skip combinations that do not change the text
                                    if (ann & 1 != 0 && npo + na == 0) || (ann & 2 != 0 && var != 1) || (ann & 4 != 0 && nk == 0) || (ann & 8 != 0 && kwarg == 0) {
                                        continue;
                                    }
                                    let mk = |name: String, ann_on: bool, d: Option<usize>| P {
                                        name: name.clone(),
                                        ann: if ann_on { Some(format!("T{}", name)) } else { None },
                                        default: d.map(|i| format!("{}", 100 + i)),
                                    };
                                    let total = npo + na;
                                    let has = |i: usize| pmask >> i & 1 == 1;
                                    let valid_order = (0..total).all(|i| !has(i) || (i + 1..total).all(has));
                                    if !valid_order && (ann != 0 || kwarg == 1 || nk > 1) {
                                        continue; // invalid orders: plain forms only
                                    }
                                    let posonly: Vec<P> = (0..npo).map(|i| mk(format!("p{}", i), ann & 1 != 0, if has(i) { Some(i) } else { None })).collect();
                                    let args: Vec<P> = (0..na).map(|i| mk(format!("a{}", i), ann & 1 != 0, if has(npo + i) { Some(npo + i) } else { None })).collect();
                                    let kwonly: Vec<P> = (0..nk).map(|i| mk(format!("k{}", i), ann & 4 != 0, if kmask >> i & 1 == 1 { Some(50 + i) } else { None })).collect();
                                    let sig = Sig {
                                        posonly,
                                        args,
                                        vararg: if var == 1 { Some(mk("va".into(), ann & 2 != 0, None)) } else { None },
                                        bare_star: var == 2,
                                        kwonly,
                                        kwarg: if kwarg == 1 { Some(mk("kw".into(), ann & 8 != 0, None)) } else { None },
                                    };
                                    check(&sig, false, valid_order, &mut rep);
                                    if ann == 0 {
                                        check(&sig, true, valid_order, &mut rep);
                                    }
                                    if rep.samples.len() < 6 && nk == maxk && kmask == 1 && npo == 1 && na == 1 && ann == 5 {
                                        rep.samples.push(render(&sig, false));
                                    }
                                }
                            }
                        }
                    }
                }
            }
        }
    }
    rep.states = rep.evaluations;
    rep.transitions = rep.evaluations * 3;
    *rep.by_bound.entry(format!("posonly<={} args<={} kwonly<={}", maxpo, maxa, maxk)).or_insert(0) = rep.evaluations;
    rep.to_json()
}
