//! `{:?}` (derive(Debug), non-pretty) text -> generic JSON tree.
//!
//!   struct        Name { f: v, .. }   -> {"t":"Name","f":{"f":v,..}}
//!   tuple struct  Name(v, ..)         -> {"t":"Name","a":[v,..]}
//!   unit / ident  Name                -> {"t":"Name"}
//!   list          [v, ..]             -> [v,..]
//!   tuple         (v, ..) / ()        -> {"u":[v,..]}
//!   string        "…"                 -> "…" (unescaped, re-escaped as JSON)
//!   char          'c'                 -> {"c":"c"}
//!   number        12 / -1.5e3         -> {"n":"12"}
//!   range         3..4                -> {"r":[3,4]}
//!
//! The converter is purely syntactic: it knows nothing about the AST.

pub struct Conv<'a> {
    s: &'a [u8],
    src: &'a str,
    i: usize,
    pub out: String,
}

pub fn json_escape_into(out: &mut String, s: &str) {
    out.push('"');
    for c in s.chars() {
        match c {
            '"' => out.push_str("\\\""),
            '\\' => out.push_str("\\\\"),
            '\n' => out.push_str("\\n"),
            '\r' => out.push_str("\\r"),
            '\t' => out.push_str("\\t"),
            c if (c as u32) < 0x20 || c == '\u{7f}' || c == '\u{2028}' || c == '\u{2029}' => {
                out.push_str(&format!("\\u{:04x}", c as u32))
            }
            c => out.push(c),
        }
    }
    out.push('"');
}

pub fn json_str(s: &str) -> String {
    let mut o = String::new();
    json_escape_into(&mut o, s);
    o
}

impl<'a> Conv<'a> {
    pub fn new(src: &'a str) -> Self {
        Conv { s: src.as_bytes(), src, i: 0, out: String::with_capacity(src.len() * 2) }
    }
    fn ws(&mut self) {
        while self.i < self.s.len() && self.s[self.i] == b' ' {
            self.i += 1;
        }
    }
    fn peek(&self) -> u8 {
        if self.i < self.s.len() { self.s[self.i] } else { 0 }
    }
    fn fail(&self, what: &str) -> String {
        let a = self.i.saturating_sub(30);
        let mut a2 = a;
        while !self.src.is_char_boundary(a2) { a2 -= 1; }
        let mut b = (self.i + 30).min(self.s.len());
        while !self.src.is_char_boundary(b) { b += 1; }
        format!("debug-parse error: {} at {} near {:?}", what, self.i, &self.src[a2..b])
    }
    pub fn value(&mut self) -> Result<(), String> {
        self.ws();
        let c = self.peek();
        match c {
            b'[' => {
                self.i += 1;
                self.out.push('[');
                let mut first = true;
                loop {
                    self.ws();
                    if self.peek() == b']' { self.i += 1; break; }
                    if !first { self.out.push(','); }
                    first = false;
                    self.value()?;
                    self.ws();
                    if self.peek() == b',' { self.i += 1; }
                }
                self.out.push(']');
                Ok(())
            }
            b'"' => self.string(),
            b'\'' => self.chr(),
            b'(' => {
                self.i += 1;
                self.out.push_str("{\"u\":[");
                let mut first = true;
                loop {
                    self.ws();
                    if self.peek() == b')' { self.i += 1; break; }
                    if !first { self.out.push(','); }
                    first = false;
                    self.value()?;
                    self.ws();
                    if self.peek() == b',' { self.i += 1; }
                }
                self.out.push_str("]}");
                Ok(())
            }
            b'-' | b'0'..=b'9' => self.number(),
            b'A'..=b'Z' | b'a'..=b'z' | b'_' => self.ident(),
            _ => Err(self.fail("unexpected byte")),
        }
    }
    fn number(&mut self) -> Result<(), String> {
        let st = self.i;
        if self.peek() == b'-' { self.i += 1; }
        // -inf
        if self.s[self.i..].starts_with(b"inf") {
            self.i += 3;
            self.out.push_str("{\"n\":\"");
            self.out.push_str(&self.src[st..self.i]);
            self.out.push_str("\"}");
            return Ok(());
        }
        while self.i < self.s.len() && self.s[self.i].is_ascii_digit() { self.i += 1; }
        // range a..b
        if self.s[self.i..].starts_with(b"..") && self.i + 2 < self.s.len() && self.s[self.i + 2].is_ascii_digit() {
            let a = &self.src[st..self.i];
            self.i += 2;
            let st2 = self.i;
            while self.i < self.s.len() && self.s[self.i].is_ascii_digit() { self.i += 1; }
            let b = &self.src[st2..self.i];
            self.out.push_str(&format!("{{\"r\":[{},{}]}}", a, b));
            return Ok(());
        }
        // fraction / exponent
        if self.peek() == b'.' && self.i + 1 < self.s.len() && self.s[self.i + 1].is_ascii_digit() {
            self.i += 1;
            while self.i < self.s.len() && self.s[self.i].is_ascii_digit() { self.i += 1; }
        }
        if self.peek() == b'e' || self.peek() == b'E' {
            let save = self.i;
            self.i += 1;
            if self.peek() == b'-' || self.peek() == b'+' { self.i += 1; }
            if self.peek().is_ascii_digit() {
                while self.i < self.s.len() && self.s[self.i].is_ascii_digit() { self.i += 1; }
            } else {
                self.i = save;
            }
        }
        self.out.push_str("{\"n\":\"");
        self.out.push_str(&self.src[st..self.i]);
        self.out.push_str("\"}");
        Ok(())
    }
    fn ident(&mut self) -> Result<(), String> {
        let st = self.i;
        while self.i < self.s.len() && (self.s[self.i].is_ascii_alphanumeric() || self.s[self.i] == b'_') { self.i += 1; }
        let name = &self.src[st..self.i];
        // struct / tuple struct need exactly "Name {" / "Name("
        if self.peek() == b'(' {
            self.i += 1;
            self.out.push_str("{\"t\":");
            json_escape_into(&mut self.out, name);
            self.out.push_str(",\"a\":[");
            let mut first = true;
            loop {
                self.ws();
                if self.peek() == b')' { self.i += 1; break; }
                if !first { self.out.push(','); }
                first = false;
                self.value()?;
                self.ws();
                if self.peek() == b',' { self.i += 1; }
            }
            self.out.push_str("]}");
            return Ok(());
        }
        if self.s[self.i..].starts_with(b" {") {
            self.i += 2;
            self.out.push_str("{\"t\":");
            json_escape_into(&mut self.out, name);
            self.out.push_str(",\"f\":{");
            let mut first = true;
            loop {
                self.ws();
                if self.peek() == b'}' { self.i += 1; break; }
                if !first { self.out.push(','); }
                first = false;
                let ks = self.i;
                while self.i < self.s.len() && (self.s[self.i].is_ascii_alphanumeric() || self.s[self.i] == b'_') { self.i += 1; }
                if ks == self.i { return Err(self.fail("field name expected")); }
                let key = &self.src[ks..self.i];
                if self.peek() != b':' { return Err(self.fail("':' expected")); }
                self.i += 1;
                json_escape_into(&mut self.out, key);
                self.out.push(':');
                self.value()?;
                self.ws();
                if self.peek() == b',' { self.i += 1; }
            }
            self.out.push_str("}}");
            return Ok(());
        }
        self.out.push_str("{\"t\":");
        json_escape_into(&mut self.out, name);
        self.out.push('}');
        Ok(())
    }
    fn escape(&mut self) -> Result<char, String> {
        // at backslash
        self.i += 1;
        let n = self.peek();
        self.i += 1;
        Ok(match n {
            b'n' => '\n',
            b'r' => '\r',
            b't' => '\t',
            b'0' => '\0',
            b'\\' => '\\',
            b'"' => '"',
            b'\'' => '\'',
            b'u' => {
                if self.peek() != b'{' { return Err(self.fail("\\u{ expected")); }
                self.i += 1;
                let st = self.i;
                while self.peek() != b'}' && self.i < self.s.len() { self.i += 1; }
                let v = u32::from_str_radix(&self.src[st..self.i], 16).map_err(|_| self.fail("bad hex"))?;
                self.i += 1;
                char::from_u32(v).ok_or_else(|| self.fail("bad scalar"))?
            }
            _ => return Err(self.fail("unknown escape")),
        })
    }
    fn string(&mut self) -> Result<(), String> {
        self.i += 1;
        let mut v = String::new();
        loop {
            if self.i >= self.s.len() { return Err(self.fail("unterminated string")); }
            let c = self.s[self.i];
            if c == b'"' { self.i += 1; break; }
            if c == b'\\' {
                v.push(self.escape()?);
                continue;
            }
            let ch = self.src[self.i..].chars().next().unwrap();
            v.push(ch);
            self.i += ch.len_utf8();
        }
        json_escape_into(&mut self.out, &v);
        Ok(())
    }
    fn chr(&mut self) -> Result<(), String> {
        self.i += 1;
        let ch = if self.peek() == b'\\' {
            self.escape()?
        } else {
            let ch = self.src[self.i..].chars().next().unwrap();
            self.i += ch.len_utf8();
            ch
        };
        if self.peek() != b'\'' { return Err(self.fail("closing ' expected")); }
        self.i += 1;
        self.out.push_str("{\"c\":");
        let mut b = [0u8; 4];
        json_escape_into(&mut self.out, ch.encode_utf8(&mut b));
        self.out.push('}');
        Ok(())
    }
}

/// Convert a complete Debug rendering; error text if it does not parse completely.
pub fn to_json(dbg: &str) -> Result<String, String> {
    let mut c = Conv::new(dbg);
    c.value()?;
    c.ws();
    if c.i != c.s.len() {
        return Err(c.fail("trailing input"));
    }
    Ok(c.out)
}

pub fn to_json_or_err(dbg: &str) -> String {
    match to_json(dbg) {
        Ok(j) => j,
        Err(e) => format!("{{\"dbgerr\":{}}}", json_str(&e)),
    }
}
