//! vworker — runs the real RustPython/Parser code on behalf of /verif/check.
//!
//!   vworker batch                 line protocol on stdin/stdout (see `ops`)
//!   vworker engine <name> [k=v…]  Rust-side exhaustive explorers with in-Rust reference models
//!   vworker info                  build configuration
mod dbg;
mod ops;
mod util;
mod engines;

fn main() {
    util::install_panic_hook();
    let args: Vec<String> = std::env::args().collect();
    match args.get(1).map(|s| s.as_str()) {
        Some("batch") => ops::batch_main(),
        Some("engine") => engines::main(&args[2..]),
        Some("info") => println!("{}", util::config_name()),
        _ => {
            eprintln!("usage: vworker batch|engine <name>|info");
            std::process::exit(2);
        }
    }
}
