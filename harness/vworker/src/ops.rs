//! Line protocol: `op \t hexarg \t hexarg …` per input line, one JSON value per output line.
//! Every op runs under catch_unwind; a panic is the observation {"panic": "msg @ file:line"}.
use crate::dbg::{json_str, to_json_or_err};
use crate::util::*;
use rustpython_parser::{self as rp, ast, lexer, Mode, Parse};
use rp::text_size::TextSize;
use std::io::{BufRead, Write};

pub fn mode_of(s: &str) -> Mode {
    match s {
        "eval" => Mode::Expression,
        "single" => Mode::Interactive,
        _ => Mode::Module,
    }
}

pub fn res_json<T: std::fmt::Debug, E: std::fmt::Debug>(r: &Result<T, E>) -> String {
    match r {
        Ok(t) => format!("{{\"ok\":{}}}", to_json_or_err(&format!("{:?}", t))),
        Err(e) => format!("{{\"err\":{}}}", to_json_or_err(&format!("{:?}", e))),
    }
}

pub fn parse_res_json<T: std::fmt::Debug>(r: &Result<T, rp::ParseError>) -> String {
    match r {
        Ok(t) => format!("{{\"ok\":{}}}", to_json_or_err(&format!("{:?}", t))),
        Err(e) => format!(
            "{{\"err\":{},\"off\":{}}}",
            to_json_or_err(&format!("{:?}", e.error)),
            u32::from(e.offset)
        ),
    }
}

/// tokens as JSON: {"toks":[[tokjson,start,end],…], "err":…?, "off":…?}
pub fn lex_json(src: &str, mode: Mode, start: u32) -> String {
    let mut out = String::from("{\"toks\":[");
    let mut first = true;
    let mut err = String::new();
    let cap = 2 * src.len() + 16;
    let mut n = 0usize;
    for r in lexer::lex_starts_at(src, mode, TextSize::from(start)) {
        n += 1;
        if n > cap {
            err = format!(",\"runaway\":{}", n);
            break;
        }
        match r {
            Ok((tok, range)) => {
                if !first {
                    out.push(',');
                }
                first = false;
                out.push_str(&format!(
                    "[{},{},{}]",
                    to_json_or_err(&format!("{:?}", tok)),
                    u32::from(range.start()),
                    u32::from(range.end())
                ));
            }
            Err(e) => {
                err = format!(
                    ",\"err\":{},\"off\":{}",
                    to_json_or_err(&format!("{:?}", e.error)),
                    u32::from(e.location)
                );
                break;
            }
        }
    }
    out.push(']');
    out.push_str(&err);
    out.push('}');
    out
}

fn op_dispatch(op: &str, a: &[&str]) -> String {
    match op {
        // ---- parser ----
        "parse" => {
            // parse <mode> <hexsrc> [start]
            let src = unhex(a[1]);
            let start: u32 = a.get(2).map(|s| s.parse().unwrap()).unwrap_or(0);
            let r = if start == 0 && a.get(2).is_none() {
                rp::parse(&src, mode_of(a[0]), "<v>")
            } else {
                rp::parse_starts_at(&src, mode_of(a[0]), "<v>", TextSize::from(start))
            };
            parse_res_json(&r)
        }
        "lex" => {
            let src = unhex(a[1]);
            let start: u32 = a.get(2).map(|s| s.parse().unwrap()).unwrap_or(0);
            lex_json(&src, mode_of(a[0]), start)
        }
        "cov" => {
            // parse (module mode) and report the grammar productions reduced (hook H3): {"ok":bool,"red":[…]}
            let src = unhex(a[0]);
            let _ = rp::verif::take_reductions();
            let ok = rp::parse(&src, Mode::Module, "<v>").is_ok();
            let red: Vec<String> = rp::verif::take_reductions().iter().map(|x| x.to_string()).collect();
            format!("{{\"ok\":{},\"red\":[{}]}}", ok, red.join(","))
        }
        "lexb" => {
            // lex + the line-boundary records of hook H1: {"toks":…, "bounds":[[location, at_begin_of_line, nesting, [[tabs, spaces]…]]…]}
            let src = unhex(a[1]);
            let _ = rp::verif::take_lexer_boundaries();
            let toks = lex_json(&src, mode_of(a[0]), 0);
            let b: Vec<String> = rp::verif::take_lexer_boundaries()
                .into_iter()
                .map(|(loc, abol, nesting, st)| {
                    let st: Vec<String> = st.iter().map(|(t, s)| format!("[{},{}]", t, s)).collect();
                    format!("[{},{},{},[{}]]", loc, abol, nesting, st.join(","))
                })
                .collect();
            format!("{},\"bounds\":[{}]}}", &toks[..toks.len() - 1], b.join(","))
        }
        "expr" => parse_res_json(&ast::Expr::parse(&unhex(a[0]), "<v>")),
        "const" => parse_res_json(&ast::Constant::parse(&unhex(a[0]), "<v>")),
        "unparse" => crate::engines::c11::unparse_one(&unhex(a[0])),
        "c09" => crate::engines::c09::op(&unhex(a[0]), a.get(1).map(|s| *s == "full").unwrap_or(false)),
        "c12" => {
            let has = |w: &str| a.iter().skip(1).any(|s| *s == w);
            let mode = if has("eval") { rustpython_parser::Mode::Expression } else if has("single") { rustpython_parser::Mode::Interactive } else { rustpython_parser::Mode::Module };
            crate::engines::c12::op(&unhex(a[0]), has("trees"), mode)
        }
        "c13" => {
            let has = |w: &str| a.iter().skip(1).any(|s| *s == w);
            let mode = if has("eval") { rustpython_parser::Mode::Expression } else if has("single") { rustpython_parser::Mode::Interactive } else { rustpython_parser::Mode::Module };
            crate::engines::c13::op(&unhex(a[0]), mode)
        }
        "c03" => crate::engines::c03::op(&unhex(a[0])),
        "c09mode" => {
            let e = crate::engines::c09::mode_from_str_check();
            if e.is_empty() { "{\"ok\":1}".to_string() } else { format!("{{\"fail\":[[{},{},{}]]}}", json_str(&e[0].0), json_str(&e[0].1), json_str(&e[0].2)) }
        }
        "info" => json_str(config_name()),
        _ => {
            #[cfg(feature = "fmt")]
            {
                if let Some(r) = crate::engines::fmtops::dispatch(op, a) {
                    return r;
                }
            }
            format!("{{\"machinery\":\"unknown op {}\"}}", op)
        }
    }
}

pub fn run_line(line: &str) -> String {
    let mut it = line.split('\t');
    let op = it.next().unwrap_or("");
    let args: Vec<&str> = it.collect();
    match guarded(|| op_dispatch(op, &args)) {
        Ok(s) => s,
        Err(p) => format!("{{\"panic\":{}}}", json_str(&p)),
    }
}

pub fn batch_main() {
    // big stack: deep recursion in the parser must surface as a clean abort only beyond realistic nesting
    let h = std::thread::Builder::new()
        .stack_size(64 << 20)
        .spawn(|| {
            let stdin = std::io::stdin();
            let stdout = std::io::stdout();
            let mut out = std::io::BufWriter::with_capacity(1 << 20, stdout.lock());
            for line in stdin.lock().lines() {
                let line = line.expect("stdin");
                if line.is_empty() {
                    continue;
                }
                let r = run_line(&line);
                debug_assert!(!r.contains('\n'));
                out.write_all(r.as_bytes()).unwrap();
                out.write_all(b"\n").unwrap();
            }
            out.flush().unwrap();
        })
        .unwrap();
    h.join().unwrap();
}
