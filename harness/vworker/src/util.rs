use std::cell::RefCell;

thread_local! {
    static LAST_PANIC: RefCell<Option<String>> = RefCell::new(None);
}

pub fn install_panic_hook() {
    std::panic::set_hook(Box::new(|info| {
        let msg = if let Some(s) = info.payload().downcast_ref::<&str>() {
            s.to_string()
        } else if let Some(s) = info.payload().downcast_ref::<String>() {
            s.clone()
        } else {
            "<non-string panic>".to_string()
        };
        let loc = info
            .location()
            .map(|l| format!("{}:{}", l.file(), l.line()))
            .unwrap_or_default();
        LAST_PANIC.with(|p| *p.borrow_mut() = Some(format!("{} @ {}", msg, loc)));
    }));
}

pub fn take_panic() -> String {
    LAST_PANIC.with(|p| p.borrow_mut().take()).unwrap_or_else(|| "<unknown panic>".into())
}

/// Run `f`, turning a panic into `Err(message @ file:line)`.
pub fn guarded<T>(f: impl FnOnce() -> T) -> Result<T, String> {
    match std::panic::catch_unwind(std::panic::AssertUnwindSafe(f)) {
        Ok(v) => Ok(v),
        Err(_) => Err(take_panic()),
    }
}

pub fn config_name() -> &'static str {
    if cfg!(feature = "cfg-full-lexer") {
        "full-lexer"
    } else if cfg!(feature = "cfg-all-nodes") {
        "all-nodes"
    } else if cfg!(feature = "cfg-num-bigint") {
        "num-bigint"
    } else {
        "default"
    }
}

pub fn unhex_bytes(s: &str) -> Vec<u8> {
    let b = s.as_bytes();
    let mut out = Vec::with_capacity(b.len() / 2);
    let h = |c: u8| -> u8 {
        match c {
            b'0'..=b'9' => c - b'0',
            b'a'..=b'f' => c - b'a' + 10,
            b'A'..=b'F' => c - b'A' + 10,
            _ => panic!("bad hex"),
        }
    };
    let mut i = 0;
    while i + 1 < b.len() {
        out.push(h(b[i]) << 4 | h(b[i + 1]));
        i += 2;
    }
    out
}

pub fn unhex(s: &str) -> String {
    String::from_utf8(unhex_bytes(s)).expect("utf8 argument")
}

pub fn hex(b: &[u8]) -> String {
    let mut s = String::with_capacity(b.len() * 2);
    for x in b {
        s.push_str(&format!("{:02x}", x));
    }
    s
}

/// FNV-1a 64 (deterministic; used for distinct-count sets and digests inside engines).
pub fn fnv64(data: &[u8]) -> u64 {
    let mut h: u64 = 0xcbf29ce484222325;
    for b in data {
        h ^= *b as u64;
        h = h.wrapping_mul(0x100000001b3);
    }
    h
}

/// All strings over `alphabet` (each symbol an arbitrary &str) of length 0..=n, in length-then-lexicographic
/// order within a shard. Strings are assigned to shards by their first two symbols
/// ((i0 * |alphabet| + i1) % nshards; shorter strings by what they have; the empty string belongs to shard 0).
/// Calls `f(text, symbol_count)`.
pub fn for_each_string(alphabet: &[&str], n: usize, shard: usize, nshards: usize, f: &mut dyn FnMut(&str, usize)) {
    let k = alphabet.len();
    let mut buf = String::new();
    if shard == 0 {
        f("", 0);
    }
    if n >= 1 {
        for i0 in 0..k {
            if (i0 * k) % nshards == shard {
                f(alphabet[i0], 1);
            }
        }
    }
    for len in 2..=n {
        for i0 in 0..k {
            for i1 in 0..k {
                if (i0 * k + i1) % nshards != shard {
                    continue;
                }
                let rest = len - 2;
                let mut idx = vec![0usize; rest];
                'outer: loop {
                    buf.clear();
                    buf.push_str(alphabet[i0]);
                    buf.push_str(alphabet[i1]);
                    for &i in &idx {
                        buf.push_str(alphabet[i]);
                    }
                    f(&buf, len);
                    let mut p = rest;
                    loop {
                        if p == 0 {
                            break 'outer;
                        }
                        p -= 1;
                        idx[p] += 1;
                        if idx[p] < k {
                            break;
                        }
                        idx[p] = 0;
                    }
                }
            }
        }
    }
}

/// Run `work(shard, nshards)` on `threads` OS threads (each with `stack` bytes of stack) and collect results in shard order.
pub fn par_shards<R: Send + 'static>(
    nshards: usize,
    stack: usize,
    work: impl Fn(usize, usize) -> R + Send + Sync + 'static,
) -> Vec<R> {
    let work = std::sync::Arc::new(work);
    let next = std::sync::Arc::new(std::sync::atomic::AtomicUsize::new(0));
    let results: std::sync::Arc<std::sync::Mutex<Vec<Option<R>>>> =
        std::sync::Arc::new(std::sync::Mutex::new((0..nshards).map(|_| None).collect()));
    let nthreads = std::thread::available_parallelism().map(|n| n.get()).unwrap_or(4).min(nshards.max(1));
    let mut hs = Vec::new();
    for _ in 0..nthreads {
        let work = work.clone();
        let next = next.clone();
        let results = results.clone();
        hs.push(
            std::thread::Builder::new()
                .stack_size(stack)
                .spawn(move || loop {
                    let s = next.fetch_add(1, std::sync::atomic::Ordering::SeqCst);
                    if s >= nshards {
                        break;
                    }
                    let r = work(s, nshards);
                    results.lock().unwrap()[s] = Some(r);
                })
                .unwrap(),
        );
    }
    for h in hs {
        h.join().expect("engine thread died");
    }
    let mut g = results.lock().unwrap();
    g.drain(..).map(|x| x.expect("missing shard")).collect()
}
